"""C04 - Rewind exactly undoes steps.  (DESIGN.md section 4, C04)

Decided (structural, necessary): what one operation step may write is restored by the rewind
(write-set of the step  <=  restore-set of RewindScript, modulo reasoned exemptions), every history
vector is pushed / popped-on-failure / restored-and-popped in matching sets from the same field, the
position counter moves by exactly one, and the refusals precede every mutation.
Not decided: equality of the continued outcome (needs determinism of a step = C01).
"""
from .. import astq, structure as S
from ..facts import AnalysisBroken
from . import common

EXPLANATION = (
    "Static write-set / restore-set analysis. The interprocedural write-set W of one operation step "
    "(the call StepScript(ScriptExecutionEnvironment&, pc) made by the session stepper, including everything it "
    "reaches: EvalChecksig*, SignatureHashSchnorr, StepExtended, ConditionStack, reference aliases, by-reference "
    "parameters) is computed as a least fixpoint over the resolved call graph; the restore-set Rs is the write-set "
    "of RewindScript. R04.1 requires W minus reasoned exemptions to be inside Rs. R04.2 checks on the CFG that the "
    "history vectors pushed before the step, popped on its failing edge and restored+popped by the rewind are the "
    "same set, each restored into the field it was filled from, and that curr_op_seq moves by exactly one. R04.3 "
    "checks that both refusals (at start; no history) are taken before any write to session state. The behaviour "
    "(equality of continued outcomes) is NOT decided; these are necessary conditions for it.")
TRUSTED = ["clang 14 parser/Sema/CFG", "/verif/tools/extract (AST+CFG export)", "checker/engines.py write-set fixpoint",
           "modelled effect of external (libstdc++) calls: non-const member call or non-const reference argument = write"]
ASSUMPTIONS = ["no writes through pointers stored in locals other than reference aliases (address-taking is reported as a write)",
               "libstdc++ accessors at/back/front/begin/end/data/operator[] (non-map) do not modify their object"]
DECLINED = ["equality of the continued outcome with a fresh session (value level; needs C01)"]

# fields of the session that a step may write without a rewind having to restore them; one reason each
EXEMPT = {
    ("opcode",): "scratch: overwritten by GetOp at the start of every step before any read",
    ("vchPushValue",): "scratch: overwritten by GetOp at the start of every step before any read",
    ("serror", "*"): "error sink: set by every failing/ending step; not part of the execution state",
    ("execdata", "m_output_hash"): "memo of a pure function of the transaction (same value whenever recomputed)",
}


def env_fields(path, env_roots):
    """path rooted at the env parameter -> tuple of fields with '*' kept after pointer fields; else None"""
    if path[0] not in env_roots:
        return None
    out = []
    for f in path[1:]:
        if f == "[]":
            break
        out.append(f)
    # drop leading deref of the env reference itself
    return tuple(out)


def norm_root(func, p):
    r = p[0]
    if r[0] == "parm" and not isinstance(r[1], int):
        for i, q in enumerate(func.params):
            if q["d"] == r[1]:
                return (("parm", i),) + p[1:]
    return p


def efields(func, node):
    """session-field tuples an lvalue expression of func denotes (env = parameter 0)"""
    out = []
    for p in astq.paths(node, astq.aliases(func)):
        f = env_fields(norm_root(func, p), {("parm", 0)})
        if f:
            out.append(f)
    return out


def covered(fields, rs):
    f = tuple(x for x in fields)
    for i in range(1, len(f) + 1):
        if f[:i] in rs:
            return True
    return False


def run(ctx, anchors=None, failed_step_rule=False):
    fb, prog = ctx.facts, ctx.prog
    A = anchors or {
        "stepper": ("StepScript", "debugger/interpreter.cpp"),
        "opstep": ("StepScript", "script/interpreter.cpp"),
        "rewind": ("RewindScript", "debugger/interpreter.cpp"),
        "inst_rewind": ("Instance::rewind", "instance.cpp"),
        "counter": "curr_op_seq",
    }
    stepper = fb.fn(*A["stepper"])
    opstep = fb.fn(*A["opstep"])
    rewind = fb.fn(*A["rewind"])
    ctx.rule("R04.1", "write-set of one operation step, minus exemptions, is inside the restore-set of RewindScript")
    ctx.rule("R04.2", "history vectors: pushed-before-step == popped-on-failure == restored-and-popped-by-rewind, "
                      "each restored into the field it was filled from; position counter +1 per successful step, -1 per rewind")
    ctx.rule("R04.3", "a refused rewind returns before any write to session state")

    ws = prog.write_sets()
    env_root_stepper = ("parm", 0)
    # ---- the op-step call inside the stepper
    calls = [n for n in stepper.nodes() if astq.is_call(n) and n.get("cid") == opstep.id]
    if len(calls) != 1:
        raise AnalysisBroken("R04: expected exactly one call of the operation step in %s, found %d" % (stepper.name, len(calls)))
    call = calls[0]
    eff = prog.call_effects(stepper, call)
    W = {}
    for p, wit in eff.items():
        p = norm_root(stepper, p)
        f = env_fields(p, {env_root_stepper})
        ctx.site()
        if f is None or not f:
            continue
        W.setdefault(f, wit)
    # the stepper's own direct writes inside the operation branch (the `if` whose then-region contains the step call)
    op_branch = None
    for a in stepper.ancestors(call):
        if a.get("k") == "if" and S.contains(a["then"], call):
            op_branch = a
    if op_branch is not None:
        inside = {id(x) for x in astq.walk(op_branch["then"])}
        for (n_, kind, ps, detail) in astq.write_events(stepper, lambda cid: (prog.resolve(cid) or None)):
            if kind == "call" or id(n_) not in inside:
                continue
            for p_ in ps:
                f_ = env_fields(norm_root(stepper, p_), {env_root_stepper})
                if f_ and not f_[0].endswith("_history") and f_ != (A["counter"],):
                    W.setdefault(f_, (stepper.id, stepper.loc(n_), kind, detail))
    # restore set
    Rs = {}
    for p, wit in ws[rewind.id].items():
        f = env_fields(p, {("parm", 0)})
        if f:
            Rs.setdefault(f, wit)
    if not Rs:
        raise AnalysisBroken("R04.1: restore-set of RewindScript is empty")
    # group written paths by their top-level session field (sub-fields of execdata kept apart)
    groups = {}
    for f, wit in W.items():
        key = f[:2] if f[0] == "execdata" else (f[:2] if len(f) > 1 and f[1] == "*" else f[:1])
        groups.setdefault(key, []).append((f, wit))
    ctx.floor("R04.1", len(groups), 8, "distinct session fields written by one step")
    for key, lst in sorted(groups.items()):
        f, wit = lst[0]
        name = ".".join(key).replace(".*", "->*")
        where = "%s (%s%s)" % (wit[1], wit[2], " " + str(wit[3]) if wit[3] else "")
        if key in EXEMPT or key[:1] in EXEMPT:
            ctx.ok("R04.1", "field=" + name, wit[1], "exempt: " + EXEMPT.get(key, EXEMPT.get(key[:1])))
            continue
        if covered(key, Rs) or covered(f, Rs):
            ctx.ok("R04.1", "field=" + name, wit[1], "written by a step at %s and restored by RewindScript at %s"
                   % (where, Rs.get(key[:1], Rs.get(key, ("", "?")))[1]))
        else:
            ctx.fail("R04.1", "field=" + name, wit[1],
                     "session field '%s' is written by an operation step (%s) but RewindScript never restores it"
                     % (name, where), detail={"paths": [".".join(x[0]) for x in lst][:6]})
    # the two scratch exemptions are themselves checked: the decoder call that overwrites them dominates every
    # other use of the field in the operation step
    ocfg = opstep.cfg()
    for fld in ("opcode", "vchPushValue"):
        uses = []
        for n in opstep.nodes():
            if n["k"] in ("ref", "mem") and (fld,) in efields(opstep, n):
                par = opstep.parent(n)
                if par is not None and par.get("k") == "decl":
                    continue
                if any(a.get("k") == "decl" for a in [opstep.parent(n)] if a):
                    continue
                uses.append(n)
        # skip the alias declaration itself (auto& opcode = env.opcode)
        uses = [n for n in uses if not any(a.get("k") == "decl" and any(d.get("isref") for d in a["decls"])
                                           for a in opstep.ancestors(n))]
        getops = [n for n in opstep.nodes() if n["k"] == "mcall" and n.get("n") == "GetOp"
                  and any((fld,) in efields(opstep, a) for a in n["args"])]
        if len(getops) != 1:
            raise AnalysisBroken("R04.1: expected one GetOp call writing %s in the operation step, found %d" % (fld, len(getops)))
        g = getops[0]
        inside = {id(x) for x in astq.walk(g)}
        late = [n for n in uses if id(n) not in inside and not ocfg.dominates(g, n)]
        ctx.site(len(uses))
        ctx.inst(not late, "R04.1", "scratch-overwritten-first:" + fld, opstep.loc(g),
                 "GetOp overwrites %s before each of its %d other uses in the step" % (fld, len(uses)),
                 "%s is used at %s before GetOp overwrote it: the 'scratch' exemption no longer holds"
                 % (fld, opstep.loc(late[0]) if late else ""))
    # the stepper's own writes in the op branch (history vectors, counter) must be restored as well
    cfg = stepper.cfg()
    counter = A["counter"]

    # ---- R04.2 pairing
    def hist_ops(func, method, depth=0):
        """(history vector, node) for every X_history.method() of func; an operation performed unconditionally by a
        same-file helper that is handed the session (env) as its first argument is attributed to the call site"""
        out = []
        for n in func.nodes():
            if n["k"] == "mcall" and n.get("n") == method:
                for f in efields(func, n.get("obj")):
                    if f[0].endswith("_history"):
                        out.append((f[0], n))
            elif astq.is_call(n) and n.get("cid") and n.get("cid") != opstep.id and depth < 2 and n.get("args"):
                passes_env = any(env_fields(norm_root(func, p_), {("parm", 0)}) == () for p_ in astq.paths(n["args"][0], astq.aliases(func))) if n["args"][0] is not None else False
                if not passes_env:
                    continue
                for g in prog.resolve(n["cid"]):
                    if g.body is None or g.id == func.id or g.file != func.file or not g.params:
                        continue
                    gcfg = g.cfg()
                    for (h, m) in hist_ops(g, method, depth + 1):
                        if gcfg.must_pass_from_block(gcfg.entry, [m]):
                            out.append((h, n))
        return out
    pushes = hist_ops(stepper, "push_back")
    pops_fail = hist_ops(stepper, "pop_back")
    pops_rw = hist_ops(rewind, "pop_back")
    pushed = {}
    snap_point = {}
    snap_local = {}
    for h, n in pushes:
        ctx.site()
        arg = n["args"][0] if n["args"] else None
        # unwrap std::move / copy construction
        while arg is not None and ((arg.get("k") == "call" and arg.get("callee") in ("std::move", "std::forward")) or
                                   (arg.get("k") == "ctor" and len(arg.get("args", [])) == 1)):
            arg = arg["args"][0]
        point = n
        srcf = []
        if arg is not None and arg.get("k") == "ref" and arg.get("dk") == "local" and arg["d"] not in astq.aliases(stepper).map:
            # a snapshot local: its initialiser is the source, its declaration the snapshot point
            for dn in stepper.nodes():
                if dn["k"] == "decl":
                    for d in dn["decls"]:
                        if d["d"] == arg["d"] and d.get("init") is not None:
                            init = d["init"]
                            while init is not None and init.get("k") == "ctor" and len(init.get("args", [])) == 1:
                                init = init["args"][0]
                            srcf = efields(stepper, init)
                            point = d["init"]
        else:
            srcf = efields(stepper, arg) if arg is not None else []
        pushed[h] = (srcf[0] if srcf else None, n)
        snap_point[h] = point
        if point is not n and arg is not None and arg.get("k") == "ref":
            snap_local[h] = arg.get("d")
    ctx.floor("R04.2", len(pushed), 1, "history vectors pushed by the stepper")
    # failing / succeeding edge of the step
    from . import common as _cm4
    succ_succ, fail_succ = _cm4.call_result_edges(stepper, cfg, call)
    if fail_succ is None or succ_succ is None:
        raise AnalysisBroken("R04.2: the result of the operation step is not branched on in %s" % stepper.name)
    before = {}
    for h, (src, n) in sorted(pushed.items()):
        pt = snap_point[h]
        taken_before = cfg.dominates(pt, call)
        src_written = src is not None and any(k[:len(src)] == src or src[:len(k)] == k for k in W)
        ctx.inst(taken_before or not src_written, "R04.2", "snapshot-before-step:" + h, stepper.loc(pt),
                 "the value recorded in %s (%s) is taken before the operation step" % (h, ".".join(src or ("?",))),
                 "%s records '%s' as it is AFTER the step (the step writes it): a rewind restores the post-step value"
                 % (h, ".".join(src or ("?",))))
        before[h] = cfg.dominates(n, call)
        if not before[h]:
            # pushed after the step: must be pushed on every successful path, never on the failing one
            okp = cfg.must_pass_from_block(succ_succ, [n]) and cfg.position(n)[0] not in cfg.reachable_from(fail_succ)
            ctx.inst(okp, "R04.2", "push-on-every-success:" + h, stepper.loc(n),
                     "%s is pushed on every successful path and on no failing path" % h)
    for h in sorted(pushed):
        ns = [n for (hh, n) in pops_fail if hh == h]
        if before[h]:
            must = bool(ns) and cfg.must_pass_from_block(fail_succ, ns)
            ctx.inst(must, "R04.2", "pop-on-failure:" + h, stepper.loc(ns[0]) if ns else stepper.loc(call),
                     "every path from the failing edge of the step to the return pops %s" % h,
                     "a failed step can return without popping %s (stale snapshot left on the history)" % h)
        # and never popped on the success edge
        succ_reach = cfg.reachable_from(succ_succ)
        bad = [n for n in ns if cfg.position(n)[0] in succ_reach and cfg.position(n)[0] not in cfg.reachable_from(fail_succ)]
        ctx.inst(not bad, "R04.2", "no-pop-on-success:" + h, stepper.loc(call), "%s is not popped after a successful step" % h)
    for h, n in pops_fail:
        if h not in pushed:
            ctx.fail("R04.2", "pop-without-push:" + h, stepper.loc(n), "%s popped on failure but never pushed" % h)
    def restores_of(func, depth=0):
        """{history vector: [(session field restored from its back(), node in func)]}; restores performed unconditionally by a
        same-file helper that is handed the session are attributed to the call site"""
        out = {}
        for n in func.nodes():
            lhs = rhs = None
            if n["k"] == "assign":
                lhs, rhs = n["lhs"], n["rhs"]
            elif n["k"] == "opcall" and n["op"] == "=" and len(n["args"]) == 2:
                lhs, rhs = n["args"]
            if lhs is None:
                if astq.is_call(n) and n.get("cid") and n.get("cid") != opstep.id and depth < 2 and n.get("args") and n["args"][0] is not None:
                    passes_env = any(env_fields(norm_root(func, p_), {("parm", 0)}) == () for p_ in astq.paths(n["args"][0], astq.aliases(func)))
                    if passes_env:
                        for g in prog.resolve(n["cid"]):
                            if g.body is None or g.id == func.id or g.file != func.file or not g.params:
                                continue
                            gcfg = g.cfg()
                            gpops = hist_ops(g, "pop_back", depth + 1)
                            for h_, lst in restores_of(g, depth + 1).items():
                                for (dst, m) in lst:
                                    # unconditional in the helper, and before the helper drops that snapshot
                                    if gcfg.must_pass_from_block(gcfg.entry, [m]) and all(gcfg.dominates(m, p__) for (hh_, p__) in gpops if hh_ == h_):
                                        out.setdefault(h_, []).append((dst, n))
                continue
            r = rhs
            while r is not None and r.get("k") == "ctor" and r.get("copy") and r["args"]:
                r = r["args"][0]
            while r is not None and r.get("k") == "call" and r.get("callee") in ("std::move", "std::forward") and r["args"]:
                r = r["args"][0]
            if r is not None and r.get("k") == "mcall" and r.get("n") == "back":
                hp = efields(func, r.get("obj"))
                lp = efields(func, lhs)
                if hp and lp:
                    out.setdefault(hp[0][0], []).append((lp[0], n))
            elif r is not None and r.get("k") == "ref" and r.get("dk") == "local" and func is stepper:
                # restored from the snapshot local that becomes the history entry on success
                lp = efields(func, lhs)
                for h_, d_ in snap_local.items():
                    if d_ == r.get("d") and lp:
                        out.setdefault(h_, []).append((lp[0], n))
        return out

    # ---- R04.5 an operation that THROWS fails too (script number overflow, ...): Instance::step catches the exception, so the
    # session lives on - with whatever the stepper had pushed. Every exception type that can escape the operation step (G-EXC)
    # must be caught in the stepper around the call, by a handler that unconditionally drops (and, for the failed-step rule,
    # first restores) every snapshot pushed before the call, or no snapshot may be pushed before the call at all.
    from ..engines import ExcEngine
    ctx.rule("R04.5", "an operation step that throws leaves no stale snapshot: caught around the call, snapshots dropped in the handler")
    exc = ExcEngine(prog)
    esc = {t: w for t, w in exc.escaping(opstep).items()}
    pre = sorted(h for h in pushed if before[h])
    tries = [a for a in stepper.ancestors(call) if a.get("k") == "try" and S.contains(a["body"], call)]
    ctx.site(len(esc))

    def uncond(body):
        """ids of the nodes of a handler body that execute on every pass through it (not nested in a branch or loop)"""
        ids = set()

        def go(n):
            if n is None:
                return
            ids.add(id(n))
            if n.get("k") in ("if", "for", "while", "do", "forrange", "switch", "cond", "try", "lambda"):
                if n.get("k") == "if":
                    go(n.get("cond"))
                return
            from ..facts import children
            for c in children(n):
                if n.get("k") == "bin" and n.get("op") in ("&&", "||") and c is not children(n)[0]:
                    continue
                go(c)
        go(body)
        return ids
    order_ = {id(n_): i_ for i_, n_ in enumerate(stepper.nodes())}
    if esc and pre:
        uncaught = dict(esc)
        handler_ok = {}
        all_pops = hist_ops(stepper, "pop_back")
        all_rest = restores_of(stepper) if failed_step_rule else {}
        for t_ in tries:
            for hd in t_["handlers"]:
                caught = [ty for ty in list(uncaught) if exc.catches(hd["ty"], ty)]
                if not caught:
                    continue
                for ty in caught:
                    uncaught.pop(ty)
                live = uncond(hd["body"])
                for h in pre:
                    popped = [n for (hh, n) in all_pops if hh == h and id(n) in live]
                    okh = bool(popped)
                    if failed_step_rule:
                        src = pushed[h][0]
                        rs = [n for (dst, n) in all_rest.get(h, []) if dst == src and id(n) in live]
                        okh = okh and bool(rs) and all(order_[id(r_)] <= order_[id(p_)] for r_ in rs[:1] for p_ in popped[:1])
                    handler_ok.setdefault(h, []).append((okh, hd))
        for h in pre:
            res = handler_ok.get(h, [])
            okh = not uncaught and bool(res) and all(o for (o, hd) in res)
            wit = sorted(uncaught)[0] if uncaught else None
            ctx.inst(okh, "R04.5", "snapshot-dropped-on-exception:" + h, stepper.loc(call),
                     "every exception that can leave the operation step (%s) is caught around the call and the handler %sdrops the entry of %s" % (", ".join(sorted(esc)), "restores the field and " if failed_step_rule else "", h),
                     ("%s can leave the operation step (%s) while %s holds the snapshot pushed for it; Instance::step catches the exception and the session continues "
                      "with a stale history entry: a later rewind pops one entry too many (position counter -1, then a read before the start of the listing)"
                      % (wit, " -> ".join(exc.chain(opstep, wit)[:5]), h)) if wit else
                     "the handler around the operation step does not unconditionally %sdrop the entry of %s" % ("restore the field and " if failed_step_rule else "", h))
    else:
        ctx.ok("R04.5", "snapshot-dropped-on-exception", stepper.loc(call), "no exception can leave the operation step, or nothing is pushed before it")

    # ---- R04.6 the step that finishes a session (the end-of-script epilogue sets `done`) pushes no history entry; undoing it
    # must therefore not pop one: on every path of Instance::rewind that found the session finished, RewindScript is not called
    from .. import symx as _sx4
    ctx.rule("R04.6", "undoing the finishing step only reopens the session: Instance::rewind does not pop a history entry when the session was done")
    irw = fb.fn(*A["inst_rewind"])
    X4 = _sx4.Explorer(prog, inline=lambda fn, n: fn.rec == irw.rec and fn.body is not None and len(fn.nodes()) <= 16, transparent=lambda n: True)      # at_end() / at_start() style accessors
    try:
        outs4 = X4.explore(irw, this=("a", "this"), limit=500)
    except _sx4.Unsupported as e:
        raise AnalysisBroken("R04.6: %s" % e)
    done_paths = [o for o in outs4 if any(v and isinstance(t, tuple) and t[0] == "f" and t[2] == "done" for (t, v) in o.conds)]
    ctx.site(len(outs4))
    if not done_paths:
        ctx.fail("R04.6", "finishing-step-undone-without-pop", irw.loc(), "Instance::rewind never asks whether the session is finished: the step that set `done` recorded no history entry, "
                 "so rewinding after it pops the entry of the last real operation as well (step x3, rewind on a two-operation script goes back two operations)")
    else:
        bad6 = [o for o in done_paths if any(e.kind == "call" and e.name == rewind.name.split("::")[-1] for e in o.events)]
        ctx.inst(not bad6, "R04.6", "finishing-step-undone-without-pop", irw.loc(),
                 "when the session was finished, rewind clears `done` and does not call %s" % rewind.name,
                 "when the session is finished Instance::rewind clears `done` and still calls %s: the finishing step pushed no history entry, so the entry of the last real operation "
                 "is popped too - `[OP_1 OP_2]`: step, step, step, rewind leaves the stack at 01 instead of 01 02" % rewind.name)

    if failed_step_rule:
        # (decided for C12 / C01, not for C04 whose histories contain no failing step) a failed operation step leaves the
        # session at the failing operation: every snapshotted field is put back from its snapshot on the failing edge
        ctx.rule("R04.F", "on the failing edge of the operation step every snapshotted field is restored from its snapshot before the snapshot is dropped")
        fail_restores = restores_of(stepper)
        for h, (src, pn) in sorted(pushed.items()):
            rs = [(dst, n) for (dst, n) in fail_restores.get(h, []) if dst == src]
            ns = [n for (hh, n) in pops_fail if hh == h]
            ok = bool(rs) and cfg.must_pass_from_block(fail_succ, [n for (d_, n) in rs]) and all(any(n is p_ or cfg.dominates(n, p_) for (d_, n) in rs) for p_ in ns)
            ctx.site()
            ctx.inst(ok, "R04.F", "restored-on-failure:" + h, stepper.loc(rs[0][1]) if rs else stepper.loc(call),
                     "after a failed operation '%s' is put back from %s before the snapshot is dropped" % (".".join(src or ("?",)), h),
                     "a failed operation step returns with '%s' as the failed operation left it (%s is dropped without being restored): the next `step` "
                     "continues after the failing operation while the position marker still shows it" % (".".join(src or ("?",)), h))
    # counter: exactly one increment on the success edge, none on the failing edge
    incs = []
    for n in stepper.nodes():
        if n["k"] == "un" and n["op"] in ("++", "--"):
            if (counter,) in efields(stepper, n["e"]):
                incs.append(n)
        if n["k"] in ("assign", "cassign"):
            if (counter,) in efields(stepper, n["lhs"]):
                incs.append(n)
    succ_reach = cfg.reachable_from(succ_succ)
    fail_reach = cfg.reachable_from(fail_succ)
    on_succ = [n for n in incs if cfg.position(n) and cfg.position(n)[0] in succ_reach]
    on_fail = [n for n in incs if cfg.position(n) and cfg.position(n)[0] in fail_reach and cfg.position(n)[0] not in succ_reach]
    ok_succ = (len(on_succ) == 1 and on_succ[0]["k"] == "un" and on_succ[0]["op"] == "++"
               and cfg.must_pass_from_block(succ_succ, on_succ))
    ctx.inst(ok_succ, "R04.2", "counter+1-on-success", stepper.loc(on_succ[0]) if on_succ else stepper.loc(call),
             "%s is incremented exactly once on every path after a successful step" % counter,
             "%s is not incremented exactly once after a successful operation step (found %d updates)" % (counter, len(on_succ)))
    ctx.inst(not on_fail, "R04.2", "counter-unchanged-on-failure", stepper.loc(call),
             "%s is not touched on the failing edge" % counter)

    # rewind side
    rcfg = rewind.cfg()
    restores = {}   # history -> (field restored, node)
    for n in rewind.nodes():
        lhs = rhs = None
        if n["k"] == "assign":
            lhs, rhs = n["lhs"], n["rhs"]
        elif n["k"] == "opcall" and n["op"] == "=" and len(n["args"]) == 2:
            lhs, rhs = n["args"]
        if lhs is None:
            continue
        ctx.site()
        # rhs: X_history.back()
        r = rhs
        while r is not None and r.get("k") == "ctor" and r.get("copy") and r["args"]:
            r = r["args"][0]
        if r is not None and r.get("k") == "mcall" and r.get("n") == "back":
            hp = efields(rewind, r.get("obj"))
            lp = efields(rewind, lhs)
            if hp and lp:
                restores[hp[0][0]] = (lp[0], n)
    for h, (src, pn) in sorted(pushed.items()):
        if h not in restores:
            ctx.fail("R04.2", "restore:" + h, rewind.loc(), "%s is pushed by the stepper but RewindScript restores nothing from it" % h)
            continue
        dst, rn = restores[h]
        ctx.inst(src is not None and dst == src, "R04.2", "restore:" + h, rewind.loc(rn),
                 "%s is filled from '%s' and restored into '%s'" % (h, ".".join(src or ("?",)), ".".join(dst)),
                 "%s is filled from '%s' but restored into '%s' (cross-wired snapshot)" % (h, ".".join(src or ("?",)), ".".join(dst)))
        pp = [n for (hh, n) in pops_rw if hh == h]
        okp = len(pp) == 1 and rcfg.dominates(rn, pp[0]) and rcfg.must_pass_after(rn, pp)
        ctx.inst(okp, "R04.2", "pop-after-restore:" + h, rewind.loc(pp[0]) if pp else rewind.loc(rn),
                 "%s is popped exactly once, after the value was read back" % h)
    for h in restores:
        if h not in pushed:
            ctx.fail("R04.2", "restore-without-push:" + h, rewind.loc(restores[h][1]), "RewindScript restores from %s which the stepper never fills" % h)
    decs = []
    for n in rewind.nodes():
        if n["k"] == "un" and n["op"] in ("++", "--"):
            if (counter,) in efields(rewind, n["e"]):
                decs.append(n)
    rets_true = [n for n in rewind.nodes() if n["k"] == "return" and astq.const_value(n.get("e")) == 1]
    okd = len(decs) == 1 and decs[0]["op"] == "--" and all(rcfg.dominates(decs[0], r) for r in rets_true) and bool(rets_true)
    ctx.inst(okd, "R04.2", "counter-1-on-rewind", rewind.loc(decs[0]) if decs else rewind.loc(),
             "%s is decremented exactly once on the accepted path of RewindScript" % counter)

    # ---- R04.1b every restored field is restored from its own snapshot (not recomputed)
    snap_dst = {dst for h, (dst, rn) in restores.items() if h in pushed and pushed[h][0] == dst}
    for key, lst in sorted(groups.items()):
        if key in EXEMPT or key[:1] in EXEMPT:
            continue
        if not (covered(key, Rs) or covered(lst[0][0], Rs)):
            continue   # already reported by R04.1
        f0 = key[:1]
        name = ".".join(key)
        ctx.site()
        ok_snap = any(key[:len(d)] == d or d[:len(key)] == key for d in snap_dst)
        ctx.inst(ok_snap, "R04.1", "restored-from-snapshot=" + name, Rs.get(f0, Rs.get(key, ("", rewind.loc())))[1],
                 "'%s' is restored from a snapshot taken before the step" % name,
                 "'%s' is written by a step but RewindScript does not restore it from a snapshot of its pre-step value (it is recomputed / adjusted instead, at %s): "
                 "any step that changes it by more than the assumed amount is not undone" % (name, Rs.get(f0, Rs.get(key, ("", "?")))[1]))
    # reads of the history must be guarded by a non-emptiness test
    backs = [n for n in rewind.nodes() if n["k"] == "mcall" and n.get("n") in ("back", "pop_back") and efields(rewind, n.get("obj")) and efields(rewind, n.get("obj"))[0][0].endswith("_history")]
    tests = [n for n in rewind.nodes() if n["k"] == "mcall" and n.get("n") in ("size", "empty") and efields(rewind, n.get("obj")) and efields(rewind, n.get("obj"))[0][0].endswith("_history")]
    unguarded = [b for b in backs if not any(rcfg.dominates(t_, b) for t_ in tests)]
    ctx.inst(not unguarded, "R04.3", "history-read-guarded", rewind.loc(unguarded[0]) if unguarded else rewind.loc(),
             "every back()/pop_back() on a history vector is dominated by a size/empty test of a history vector",
             "RewindScript reads %s without testing that the history is non-empty: after a failed first step (pc moved, history empty) a rewind reads before the vector"
             % (astq.estr(unguarded[0]) if unguarded else ""))

    # ---- R04.3 refusal precedes mutation
    for fn_anchor, label in ((A["rewind"], "RewindScript"), (A["inst_rewind"], "Instance::rewind")):
        f = fb.fn(*fn_anchor)
        common.refusal_before_mutation(ctx, prog, f, "R04.3", label)
    # ---- R04.4 history of a previous script is never popped: position-based refusal at a script's first
    # instruction (history is not cleared at a script switch), or histories cleared at every switch
    ctx.rule("R04.4", "a rewind at the first instruction of a script is refused (snapshots of a previous script are never restored into the next one)")
    ir = fb.fn(*A["inst_rewind"])
    icfg = ir.cfg()
    rw_calls = [n for n in ir.nodes() if astq.is_call(n) and n.get("cid") == rewind.id]
    pos_guard = None
    cand = list(ir.nodes())
    # the guard may live in a helper predicate called by Instance::rewind (e.g. at_start())
    helpers = {}
    for n in ir.nodes():
        if astq.is_call(n) and n.get("cid") and n.get("cid") != rewind.id:
            for g in prog.resolve(n["cid"]):
                if g.rec == ir.rec and len(g.nodes()) < 40:
                    helpers[n["id"]] = g

    def is_pos_test(func, e):
        if e is None or e.get("k") not in ("opcall", "bin") or e.get("op") != "==":
            return False
        a, b = (e["args"] if e["k"] == "opcall" else (e["lhs"], e["rhs"]))
        ta, tb = astq.estr(a), astq.estr(b)
        return (ta.endswith("pc") and "script.begin()" in tb) or (tb.endswith("pc") and "script.begin()" in ta)
    for (blk, s_, c, t) in icfg.cond_edges():
        cn = ir.node_by_id(c)
        good = is_pos_test(ir, cn)
        if not good and cn is not None and cn.get("id") in helpers:
            g = helpers[cn["id"]]
            rets = [r for r in g.nodes() if r["k"] == "return"]
            good = len(rets) == 1 and is_pos_test(g, rets[0].get("e"))
        if good and t:
            rej0 = [r for r in ir.nodes() if r["k"] == "return" and astq.const_value(r.get("e")) == 0]
            if icfg.must_pass_from_block(s_, rej0) and all(icfg.dominates(cn, rc) for rc in rw_calls):
                pos_guard = cn
    cleared = False
    if pos_guard is None:
        # alternative design: every script switch clears every pushed history
        sal = astq.aliases(stepper)
        sws = [n for n in stepper.nodes() if n["k"] == "opcall" and n["op"] == "=" and any(p[1:] == ("script",) for p in astq.paths(n["args"][0], sal))]
        clears = {}
        for n in stepper.nodes():
            if n["k"] == "mcall" and n.get("n") == "clear":
                for f_ in efields(stepper, n.get("obj")):
                    clears.setdefault(f_[0], []).append(n)
        cleared = bool(sws) and all(h in clears and cfg.must_pass_after(sw_, clears[h]) for sw_ in sws for h in pushed)
    ctx.site()
    ctx.inst(pos_guard is not None or cleared, "R04.4", "no-rewind-across-script-switch", ir.loc(pos_guard) if pos_guard is not None else ir.loc(),
             "Instance::rewind refuses when pc == script.begin() (first instruction of any script) before calling RewindScript",
             "Instance::rewind no longer refuses at the first instruction of a script and the history is not cleared at script switches: "
             "a rewind right after a script switch restores a snapshot (stack, pc) of the previous script into the new one")
    ctx.extra["write_set_fields"] = sorted(".".join(k) for k in groups)
    ctx.extra["restore_set_fields"] = sorted(".".join(k) for k in Rs)
    ctx.extra["write_set_fixpoint_rounds"] = getattr(prog, "ws_rounds", None)


MUTANTS = [
    dict(name="finishing-step-undone-with-pop", file="instance.cpp", find="        env->done = false;\n        return true;\n", replace="        env->done = false;\n", expect=["R04.6:finishing-step-undone-without-pop"]),
    dict(name="handler-does-not-undo", file="debugger/interpreter.cpp", find="            UndoFailedStep(env);\n            throw;\n", replace="            throw;\n", expect=["R04.5:snapshot-dropped-on-exception"]),
    dict(name="step-not-guarded-by-try", file="debugger/interpreter.cpp", regex=True, find=r"        try \{\n            if \(!StepScript\(env, pc\)\) \{\n                UndoFailedStep\(env\);\n                return false;\n            \}\n        \} catch \(\.\.\.\) \{\n.*?            throw;\n        \}\n",
         replace="        if (!StepScript(env, pc)) {\n            UndoFailedStep(env);\n            return false;\n        }\n", expect=["R04.5:snapshot-dropped-on-exception"]),
    dict(name="handler-only-for-std-exception-subtype", file="debugger/interpreter.cpp", find="        } catch (...) {\n            // an operation that throws", replace="        } catch (const std::out_of_range&) {\n            // an operation that throws", expect=["R04.5:snapshot-dropped-on-exception"]),
    dict(name="handler-undo-conditional", file="debugger/interpreter.cpp", find="            UndoFailedStep(env);\n            throw;\n", replace="            if (env.stack_history.size() > 1) UndoFailedStep(env);\n            throw;\n", expect=["R04.5:snapshot-dropped-on-exception"]),
    dict(name="opcode_pos-not-restored", file="debugger/interpreter.cpp", after="bool RewindScript(InterpreterEnv& env)",  find="\n    env.opcode_pos = env.opcode_pos_history.back();\n", replace="\n", expect=["R04.1:field=opcode_pos", "R04.2:restore:opcode_pos_history"]),
    dict(name="opcount-recomputed-on-rewind", file="debugger/interpreter.cpp", after="bool RewindScript(InterpreterEnv& env)",  find="\n    env.nOpCount = env.nOpCount_history.back();\n", replace="\n    if (env.nOpCount > 0) env.nOpCount--;\n", expect=["R04.1:restored-from-snapshot=nOpCount", "R04.2:restore:nOpCount_history"]),
    dict(name="empty-history-guard-removed", file="debugger/interpreter.cpp", find="    if (env.stack_history.size() == 0) {\n        printf(\"no stack history\\n\");\n        return false;\n    }\n", replace="", expect=["R04.3:RewindScript:has-refusal", "R04.3:history-read-guarded"]),
    dict(name="drop-restore-vfExec", file="debugger/interpreter.cpp", after="bool RewindScript(InterpreterEnv& env)",  find="\n    env.vfExec = env.vfExec_history.back();\n", replace="\n", expect=["R04.1:field=vfExec", "R04.2:restore:vfExec_history"]),
    dict(name="drop-execdata-history", file="debugger/interpreter.cpp", regex=True, find=r"    env\.execdata = env\.execdata_history\.back\(\);\n(.*?)    env\.execdata_history\.pop_back\(\);\n(.*?)        env\.execdata_history\.push_back\(env\.execdata\);\n(.*?)    env\.execdata = env\.execdata_history\.back\(\);\n(.*?)    env\.execdata_history\.pop_back\(\);\n",
         replace=r"\1\2\3\4", expect=["R04.1:field=execdata"]),
    dict(name="rewind-guard-by-history-emptiness", file="instance.cpp", find="    if (env->pc == env->script.begin()) {\n        return false;\n    }\n    if (env->done) {",
         replace="    if (env->stack_history.empty()) {\n        return false;\n    }\n    if (env->done) {", expect=["R04.4:no-rewind-across-script-switch"]),
    dict(name="drop-restore-altstack", file="debugger/interpreter.cpp", after="bool RewindScript(InterpreterEnv& env)", 
         find="\n    env.altstack = env.altstack_history.back();\n", replace="\n",
         expect=["R04.1:field=altstack", "R04.2:restore:altstack_history"]),
    dict(name="cross-wire-altstack-from-stack_history", file="debugger/interpreter.cpp", after="bool RewindScript(InterpreterEnv& env)", 
         find="\n    env.altstack = env.altstack_history.back();", replace="\n    env.altstack = env.stack_history.back();",
         expect=["R04.2:restore"]),
    dict(name="drop-counter-decrement", file="debugger/interpreter.cpp",
         find="    env.curr_op_seq--;\n", replace="", expect=["R04.2:counter-1-on-rewind"]),
    dict(name="drop-history-push-nOpCount", file="debugger/interpreter.cpp",
         find="        env.nOpCount_history.push_back(env.nOpCount);\n", replace="",
         expect=["R04.2:pop-without-push", "R04.2:restore-without-push", "R04.1:field=nOpCount"]),
    dict(name="new-step-state-not-snapshotted", file="script/interpreter.cpp",
         find="                case OP_NOP:\n                    break;", replace="                case OP_NOP:\n                    env.allow_disabled_opcodes = !env.allow_disabled_opcodes;\n                    break;",
         expect=["R04.1:field=allow_disabled_opcodes"]),
    dict(name="mutation-before-refusal", file="debugger/interpreter.cpp",
         find="    if (env.stack_history.size() == 0) {", replace="    env.curr_op_seq--;\n    if (env.stack_history.size() == 0) {",
         expect=["R04.3:RewindScript", "R04.2:counter-1-on-rewind"]),
    dict(name="double-increment-on-success", file="debugger/interpreter.cpp",
         find="        env.curr_op_seq++;\n        return true;\n    }\n\n    auto& vfExec", replace="        env.curr_op_seq += 2;\n        return true;\n    }\n\n    auto& vfExec",
         expect=["R04.2:counter+1-on-success"]),
]


def AUTO_MUTANTS(ctx):
    """for every history vector: drop its push, its failure pop, its restore, its rewind pop - one at a time"""
    import os as _os
    src = open(_os.path.join(ctx.facts.repo, "debugger/interpreter.cpp")).read()
    out = []
    import re as _re
    hs = sorted(set(_re.findall(r"env\.(\w+_history)\.push_back", src)))
    RW = "bool RewindScript(InterpreterEnv& env)"
    if src.count(RW) != 1:
        return out
    pre, post = src[:src.index(RW)], src[src.index(RW):]
    for h in hs:
        m = _re.search(r"        env\.%s\.push_back\(env\.(\w+)\);\n" % h, src)
        if m and src.count(m.group(0)) == 1:
            out.append(dict(name="auto:drop-push:" + h, file="debugger/interpreter.cpp", find=m.group(0), replace="", expect=["R04."]))
        # failure side (the stepper or its undo helper, before RewindScript in the file); rewind side after it
        m = _re.search(r"\n( +)env\.%s\.pop_back\(\);\n" % h, pre)
        if m and pre.count(m.group(0)) == 1:
            out.append(dict(name="auto:drop-failure-pop:" + h, file="debugger/interpreter.cpp", before=RW, find=m.group(0), replace="\n", expect=["R04.2:pop-on-failure:" + h, "R04.5:snapshot-dropped-on-exception:" + h]))
        m = _re.search(r"    env\.(\w+) = env\.%s\.back\(\);\n" % h, post)
        if m and post.count(m.group(0)) == 1:
            out.append(dict(name="auto:drop-restore:" + h, file="debugger/interpreter.cpp", after=RW, find=m.group(0), replace="", expect=["R04.1:", "R04.2:restore:" + h]))
        pr = "    env.%s.pop_back();\n" % h
        if post.count(pr) == 1:
            out.append(dict(name="auto:drop-rewind-pop:" + h, file="debugger/interpreter.cpp", after=RW, find=pr, replace="", expect=["R04.2:pop-after-restore:" + h]))
    return out
