"""C07 - btcc emits exact minimal encodings: the table / ladder clauses (DESIGN.md section 4, C07)."""
from .. import astq, structure as S
from ..facts import AnalysisBroken, walk

EXPLANATION = (
    "Sibling-agreement analysis of the tables and threshold ladders the compiler's output depends on. R07.1 name tables: every row "
    "of GetOpCode maps the literal \"X\" to the enumerator OP_X (resolved declarations, after macro expansion), every enumerator name "
    "of opcodetype (aliases included) has a row, and GetOpName returns for each enumerator either its own name or the decimal of the "
    "small integer it pushes. R07.2 push-size ladder: the thresholds of the writer CScript::operator<<(vector) (direct / PUSHDATA1 / "
    "PUSHDATA2 / PUSHDATA4), the judge CheckMinimalPush and the reader GetScriptOp are extracted from their if-chains and must be the "
    "same classes [<=75, <=255, <=65535, else] with the same opcode and length-field width per class. R07.3 small-integer ladder: "
    "push_int64 (-1, 1..16 -> n + (OP_1-1); 0 -> OP_0), CheckMinimalPush's single-byte cases (1..16, 0x81) and the interpreter's decode "
    "(opcode - (OP_1-1)) use the same range and offset, and the opcode bytes are the consensus ones. Tokenisation, bracket nesting, "
    "literal classification and the short-hex-literal clause are value-level and NOT decided.")
TRUSTED = ["clang 14 parser/Sema/constant evaluator", "/verif extractor", "/verif term evaluator G-SYM (checker/symx.py): inlining, loop summaries relative to prev, linear normal form; casts between integer types are treated as value-preserving"]
ASSUMPTIONS = ["opcode byte values are taken from the compiler's evaluation of the enumerators"]
DECLINED = ["tokenisation / comments / bracket nesting", "classification of literals (decimal vs hex vs string)", "hex literals shorter than 5 bytes are re-read as numbers (value-level; the suite pins this behaviour)"]

CONSENSUS_BYTES = {"OP_0": 0x00, "OP_PUSHDATA1": 0x4c, "OP_PUSHDATA2": 0x4d, "OP_PUSHDATA4": 0x4e, "OP_1NEGATE": 0x4f, "OP_RESERVED": 0x50,
                   "OP_1": 0x51, "OP_16": 0x60, "OP_NOP": 0x61, "OP_IF": 0x63, "OP_ENDIF": 0x68, "OP_VERIFY": 0x69, "OP_RETURN": 0x6a,
                   "OP_TOALTSTACK": 0x6b, "OP_DUP": 0x76, "OP_CAT": 0x7e, "OP_EQUAL": 0x87, "OP_EQUALVERIFY": 0x88, "OP_1ADD": 0x8b, "OP_ADD": 0x93,
                   "OP_WITHIN": 0xa5, "OP_RIPEMD160": 0xa6, "OP_SHA256": 0xa8, "OP_HASH160": 0xa9, "OP_HASH256": 0xaa, "OP_CODESEPARATOR": 0xab,
                   "OP_CHECKSIG": 0xac, "OP_CHECKSIGVERIFY": 0xad, "OP_CHECKMULTISIG": 0xae, "OP_CHECKMULTISIGVERIFY": 0xaf, "OP_NOP1": 0xb0,
                   "OP_CHECKLOCKTIMEVERIFY": 0xb1, "OP_CHECKSEQUENCEVERIFY": 0xb2, "OP_NOP10": 0xb9, "OP_CHECKSIGADD": 0xba}


def chain_arms(func, head):
    """[(cond or None, body)] of an if / else-if / else chain"""
    out = []
    cur = head
    while cur is not None and cur.get("k") == "if":
        out.append((cur["cond"], cur["then"]))
        nxt = cur.get("else")
        if nxt is not None and nxt.get("k") != "if":
            out.append((None, nxt))
            nxt = None
        cur = nxt
    return out


def run(ctx, anchors=None):
    fb, prog = ctx.facts, ctx.prog
    ctx.rule("R07.1", "opcode name tables: GetOpCode rows, coverage of every enumerator name, GetOpName agreement, consensus byte values")
    ctx.rule("R07.2", "push-size ladder: writer == judge == reader (classes, opcodes, length-field widths)")
    ctx.rule("R07.3", "small-integer ladder: push_int64 == CheckMinimalPush == interpreter decode")
    en = fb.enum("opcodetype")
    E = {c["n"]: c["v"] for c in en["consts"]}
    # ---- R07.1
    goc = fb.fn("GetOpCode", file="debugger/script.cpp")

    from . import common as _cm
    _cm.require_names(goc, ["name"], "R07.1")
    rows = {}
    for n in goc.nodes():
        if n["k"] != "if":
            continue
        c, neg = S.strip_not(n["cond"])
        if not (neg and c is not None and c.get("k") == "call" and c.get("n") == "strcmp"):
            continue
        lit = [a for a in c["args"] if a is not None and a.get("k") == "str"]
        ret = [x for x in walk(n["then"]) if x["k"] == "return"]
        if not lit or not ret:
            continue
        r = ret[0].get("e")
        while r is not None and r.get("k") == "cast":
            r = r["e"]
        ctx.site()
        L = lit[0]["s"]
        Ename = r["n"] if r is not None and r.get("k") == "ref" and r.get("dk") == "enumc" else None
        rows.setdefault(L, (Ename, n))
        ctx.inst(Ename == "OP_" + L, "R07.1", "row=" + L, goc.loc(n), "\"%s\" -> %s" % (L, Ename),
                 "the name \"%s\" compiles to %s (0x%02x) instead of OP_%s" % (L, Ename, E.get(Ename, 0) & 0xff, L))
    ctx.floor("R07.1", len(rows), 100, "rows of GetOpCode")
    for name in sorted(E):
        if name == "OP_INVALIDOPCODE":
            continue
        short = name[3:]
        ctx.site()
        ctx.inst(short in rows, "R07.1", "accepted=" + name, goc.loc(), "%s is accepted by name" % name,
                 "%s is an opcode (0x%02x) but GetOpCode has no row for it: `%s` is compiled as a string push" % (name, E[name], name))
    # no exit before the table can trigger for a name the table contains: every `return` that is not a table row is
    # evaluated (three-valued) for every row literal; it may only be able to fire for strings that are not table names
    row_nodes = {id(v[1]) for v in rows.values()}
    row_ifs = [v[1] for v in rows.values()]
    gcfg = goc.cfg()
    first_row = min(row_ifs, key=lambda n: (n.get("l", 0), n.get("c", 0))) if row_ifs else None
    HEXD = set("0123456789abcdefABCDEF")

    def ev3(e, name):
        """True / False / None(unknown) for condition e with the C string `name`"""
        if e is None:
            return None
        k = e.get("k")
        if k == "cast":
            return ev3(e["e"], name)
        if k == "un" and e["op"] == "!":
            v = ev3(e["e"], name)
            return None if v is None else (not v)
        if k == "bin" and e["op"] == "&&":
            a, b = ev3(e["lhs"], name), ev3(e["rhs"], name)
            if a is False or b is False:
                return False
            return True if (a and b) else None
        if k == "bin" and e["op"] == "||":
            a, b = ev3(e["lhs"], name), ev3(e["rhs"], name)
            if a is True or b is True:
                return True
            return False if (a is False and b is False) else None
        if k == "bin" and e["op"] in ("==", "!=", "<", ">", "<=", ">="):
            a, b = val3(e["lhs"], name), val3(e["rhs"], name)
            if a is None or b is None:
                return None
            return {"==": a == b, "!=": a != b, "<": a < b, ">": a > b, "<=": a <= b, ">=": a >= b}[e["op"]]
        if k == "call" and e.get("n") == "IsHex":
            sub = str3(e["args"][0], name)
            if sub is None:
                return None
            return len(sub) > 0 and len(sub) % 2 == 0 and all(c in HEXD for c in sub)
        if k in ("ref", "index", "opcall", "mcall", "call"):
            v = val3(e, name)
            return None if v is None else bool(v)
        return None

    def str3(e, name):
        x = e
        while x is not None and x.get("k") in ("cast", "ctor") and (x.get("e") is not None or len(x.get("args", [])) >= 1):
            x = x["e"] if x.get("k") == "cast" else x["args"][0]
        if x is None:
            return None
        if x.get("k") == "ref" and x["n"] == "name":
            return name
        if x.get("k") == "un" and x["op"] == "&" and x["e"].get("k") == "index" and astq.estr(x["e"]["base"]) == "name":
            i = astq.const_value(x["e"]["idx"])
            return name[i:] if i is not None and i <= len(name) else None
        return None

    def val3(e, name):
        cv = astq.const_value(e)
        if cv is not None:
            return cv
        x = e
        while x is not None and x.get("k") == "cast":
            x = x["e"]
        if x is None:
            return None
        if x.get("k") == "index" and astq.estr(x["base"]) == "name":
            i = astq.const_value(x["idx"])
            if i is None:
                return None
            return ord(name[i]) if i < len(name) else 0
        if x.get("k") == "call" and x.get("n") == "strlen":
            sub = str3(x["args"][0], name)
            return None if sub is None else len(sub)
        if x.get("k") == "ref" and x["n"] == "name":
            return 1   # non-null pointer
        return None
    early = []
    for n in goc.nodes():
        if n["k"] != "return":
            continue
        if any(id(a) in row_nodes for a in goc.ancestors(n)):
            continue
        if first_row is not None and gcfg.dominates(first_row["cond"], n):
            continue     # after the table (the final "not an opcode" return)
        conds = [(c, t) for (c, t) in S.ast_guards(goc, n)]
        early.append((n, conds))
    for (n, conds) in early:
        ctx.site(len(rows))
        hit = None
        for L in sorted(rows):
            for nm in (L,):
                vals = []
                for (c, t) in conds:
                    v = ev3(c, nm)
                    vals.append(None if v is None else (v if t else (not v)))
                if all(v is not False for v in vals):
                    hit = (L, [astq.estr(c) for (c, t) in conds])
                    break
            if hit:
                break
        key = "exit-before-table:%s" % (astq.estr(conds[-1][0])[:40] if conds else "unconditional")
        ctx.inst(hit is None, "R07.1", key, goc.loc(n), "the exit guarded by %s cannot fire for any of the %d table names" % ([astq.estr(c) for (c, t) in conds], len(rows)),
                 "GetOpCode can return at %s before consulting the name table for the table name \"%s\" (condition %s may hold): that opcode name is no longer recognised"
                 % (goc.loc(n), hit[0] if hit else "", hit[1] if hit else ""))
    gon = fb.fn("GetOpName", file="script/script.cpp")
    sw = S.find_switches(gon)
    if not sw:
        raise AnalysisBroken("GetOpName has no switch")
    nlab = 0
    for g in S.case_groups(sw[0]):
        rets = [x for x in g.nodes() if x["k"] == "return"]
        lits = [y for x in rets for y in walk(x) if y["k"] == "str"]
        for (nm, v, cn) in g.labels:
            if v == "default" or nm is None:
                continue
            nlab += 1
            ctx.site()
            s_ = lits[0]["s"] if lits else None
            ok = s_ == nm
            if not ok and s_ is not None:
                # decimal of the small integer the opcode pushes
                try:
                    iv = int(s_)
                    ok = (iv == 0 and nm == "OP_0") or (iv == -1 and nm == "OP_1NEGATE") or (1 <= iv <= 16 and E.get(nm) == E["OP_1"] + iv - 1)
                except ValueError:
                    ok = False
            ctx.inst(ok, "R07.1", "name-of=" + nm, gon.loc(cn), "GetOpName(%s) = \"%s\"" % (nm, s_),
                     "GetOpName(%s) returns \"%s\": listings and round trips show a different operation" % (nm, s_))
    ctx.floor("R07.1", nlab, 100, "case labels of GetOpName")
    for name, byte in sorted(CONSENSUS_BYTES.items()):
        ctx.inst(E.get(name) == byte, "R07.1", "byte=" + name, "%s:%d" % (en["file"], en["line"]), "%s == 0x%02x" % (name, byte),
                 "%s is 0x%02x, Bitcoin's opcode byte is 0x%02x" % (name, E.get(name, -1), byte))
    # contiguity of OP_1..OP_16 (the small-int arithmetic relies on it)
    ctx.inst(all(E.get("OP_%d" % i) == E["OP_1"] + i - 1 for i in range(1, 17)), "R07.1", "OP_1..OP_16-contiguous", "%s:%d" % (en["file"], en["line"]), "OP_n == OP_1 + n - 1 for n in 1..16")

    # ---- R07.2
    writer = [f for f in fb.fns("CScript::operator<<") if f.params and "vector" in f.params[0]["ct"]]
    if not writer:
        raise AnalysisBroken("CScript::operator<<(vector) not found")
    writer = writer[0]
    judge = fb.fn("CheckMinimalPush", file="script/script.cpp")
    reader = fb.fn("GetScriptOp", file="script/script.cpp")
    if len(judge.params) != 2 or len(writer.params) != 1:
        raise AnalysisBroken("R07.2: CheckMinimalPush(data, opcode) / operator<<(vector) signatures changed")

    from .. import symx, ladders
    X = symx.Explorer(prog, inline=lambda fn, n: False, transparent=lambda n: True)
    PD = {E["OP_PUSHDATA1"]: "OP_PUSHDATA1", E["OP_PUSHDATA2"]: "OP_PUSHDATA2", E["OP_PUSHDATA4"]: "OP_PUSHDATA4"}

    def explore(func, **kw):
        try:
            return X.explore(func, **kw)
        except symx.Unsupported as e:
            raise AnalysisBroken("R07.2: %s: %s" % (func.name, e))
    # writer ladder: classes read off the decided conditions on b.size(); per class the opcode byte and the width of the length field
    B = ("a", "b")
    BS = ("ap", "m:size", B)
    wclasses = []
    for o in explore(writer, this=("a", "this"), params={writer.params[0]["n"]: B}):
        if o.status not in ("ret", "end"):
            continue
        lo, hi = ladders.interval(o.conds, BS)
        if hi is not None and lo > hi:
            continue
        ins = [e for e in o.events if (e.kind == "mcall" and e.name == "insert") or (e.kind == "call" and e.name in ("WriteLE16", "WriteLE32"))]
        op = None
        width = None
        payload = False
        for e in ins:
            if e.kind == "call":
                width = 2 if e.name == "WriteLE16" else 4
                if e.terms[-1] != BS:
                    width = "length field is not b.size()"
            elif len(e.terms) == 3 and symx.is_const(e.terms[2]) and e.terms[2][1] in PD:
                op = PD[e.terms[2][1]]
            elif len(e.terms) == 3 and e.terms[2] == BS and op is not None:
                width = 1
            elif len(e.terms) == 4 and e.terms[2] == ("ap", "m:begin", B) and e.terms[3] == ("ap", "m:end", B):
                payload = True
        wclasses.append((lo, hi, (op, width) if payload else ("payload not appended", None)))
    wclasses.sort(key=lambda x: x[0])
    wclasses = [(hi, f_) for (hi, f_) in [(c[1], c[2]) for c in wclasses]] if [c[0] for c in wclasses] == [0] + [c[1] + 1 for c in wclasses[:-1] if c[1] is not None] else [("classes do not tile", None)]
    # judge ladder
    D, OPC = ("a", "data"), ("a", "opcode")
    DS = ("ap", "m:size", D)
    D0 = ("ap", "[]", D, symx.C(0))
    jall = []
    for o in explore(judge, params={judge.params[0]["n"]: D, judge.params[1]["n"]: OPC}):
        if o.status != "ret":
            continue
        lo, hi = ladders.interval(o.conds, DS)
        dlo, dhi = ladders.interval(o.conds, D0, top=255)
        if (hi is not None and lo > hi) or dlo > dhi:
            continue
        jall.append((lo, hi, dlo, dhi, o.ret))
    jcl = []
    for (lo, hi, dlo, dhi, ret) in sorted(set(jall), key=lambda x: (x[0], x[2])):
        if lo < 2 or hi is None:
            continue
        kind = None
        if isinstance(ret, tuple) and ret[0] == "eq" and OPC in ret[1:]:
            other = ret[2] if ret[1] == OPC else ret[1]
            kind = "<size>" if other == DS else (PD.get(other[1]) if symx.is_const(other) else symx.show(other))
        else:
            kind = symx.show(ret)
        jcl.append((hi, kind))
    single_rejected = sorted({(dlo, dhi) for (lo, hi, dlo, dhi, ret) in jall if (lo, hi) == (1, 1) and ret == symx.C(0)})
    single_other = sorted({symx.show(ret) for (lo, hi, dlo, dhi, ret) in jall if (lo, hi) == (1, 1) and ret != symx.C(0)})
    empty_ret = sorted({symx.show(ret) for (lo, hi, dlo, dhi, ret) in jall if (lo, hi) == (0, 0)})
    # reader ladder: per class of the opcode byte, how far the cursor advances and where the payload length comes from
    if len(reader.params) != 4:
        raise AnalysisBroken("R07.2: GetScriptOp(pc, end, opcodeRet, pvchRet) signature changed")
    PC = ("a", "pc")
    OPB = ("f", PC, "*")
    rcl = {}
    for o in explore(reader, params={reader.params[0]["n"]: PC, reader.params[1]["n"]: ("a", "end"), reader.params[2]["n"]: ("a", "opcodeRet"), reader.params[3]["n"]: symx.NULL}):
        if o.status != "ret" or o.ret != symx.C(1):
            continue
        lo, hi = ladders.interval(o.conds, OPB, top=255)
        if lo > hi:
            continue
        fin = X.var(o, reader.params[0]["n"])
        c0, parts = symx.lin_parts(fin)
        rest = {k_: v_ for k_, v_ in parts.items() if k_ != PC}
        src = None
        if parts.get(PC) != 1 or any(v_ != 1 for v_ in rest.values()) or len(rest) > 1:
            src = "cursor = %s" % symx.show(fin)
        elif rest:
            t = list(rest)[0]
            nxt = symx.lin_add(PC, symx.C(1))
            if t == OPB:
                src = "opcode"
            elif t == ("f", nxt, "*"):
                src = "byte@pc+1"
            elif isinstance(t, tuple) and t[0] == "ap" and t[1] in ("ReadLE16", "ReadLE32") and symx.contains(t, nxt):
                src = t[1] + "@pc+1"
            else:
                src = symx.show(t)
        rcl.setdefault((lo, hi), set()).add((c0, src, X.var(o, reader.params[2]["n"]) == OPB))
    want_r = {(0, E["OP_PUSHDATA1"] - 1): (1, "opcode", True), (E["OP_PUSHDATA1"],) * 2: (2, "byte@pc+1", True), (E["OP_PUSHDATA2"],) * 2: (3, "ReadLE16@pc+1", True),
              (E["OP_PUSHDATA4"],) * 2: (5, "ReadLE32@pc+1", True), (E["OP_PUSHDATA4"] + 1, 255): (1, None, True)}
    got_r = {k_: (list(v_)[0] if len(v_) == 1 else tuple(sorted(v_, key=repr))) for k_, v_ in rcl.items()}
    for (k_, nm) in (((E["OP_PUSHDATA1"],) * 2, "OP_PUSHDATA1"), ((E["OP_PUSHDATA2"],) * 2, "OP_PUSHDATA2"), ((E["OP_PUSHDATA4"],) * 2, "OP_PUSHDATA4")):
        g_ = got_r.get(k_)
        adv = g_[0] if isinstance(g_, tuple) and len(g_) == 3 and isinstance(g_[0], int) else None
        ctx.inst(adv == want_r[k_][0], "R07.2", "reader-advance=" + nm, reader.loc(), "the reader advances past the opcode and the %d-byte length it read" % (want_r[k_][0] - 1),
                 "GetScriptOp reads a %d-byte length for %s but advances by %s" % (want_r[k_][0] - 1, nm, (adv - 1) if adv is not None else g_))
    # same classes and length sources (the advance is judged above)
    def strip(d):
        return {k_: ((v_[1], v_[2]) if isinstance(v_, tuple) and len(v_) == 3 and isinstance(v_[0], int) else v_) for k_, v_ in d.items()}
    ctx.site(len(wclasses) + len(jcl) + len(rcl))
    want_w = [(75, (None, None)), (255, ("OP_PUSHDATA1", 1)), (65535, ("OP_PUSHDATA2", 2)), (None, ("OP_PUSHDATA4", 4))]
    ctx.inst(wclasses == want_w, "R07.2", "writer-ladder", writer.loc(), "writer classes: %s" % wclasses,
             "CScript::operator<<(vector) uses the classes %s; minimal encoding requires %s" % (wclasses, want_w))
    want_j = [(75, "<size>"), (255, "OP_PUSHDATA1"), (65535, "OP_PUSHDATA2")]
    ctx.inst(jcl == want_j, "R07.2", "judge-ladder", judge.loc(), "judge classes: %s" % jcl,
             "CheckMinimalPush uses the classes %s; the writer uses %s" % (jcl, want_j))
    ctx.inst(strip(got_r) == strip(want_r), "R07.2", "reader-ladder", reader.loc(), "reader classes (opcode range -> advance, length source): %s" % sorted(got_r.items()),
             "GetScriptOp decodes the classes %s; the writer emits %s" % (sorted(strip(got_r).items()), sorted(strip(want_r).items())))

    # ---- R07.3
    pi = fb.fn("CScript::push_int64")
    _cm.require_names(pi, ["n"], "R07.3")
    heads = [n for n in pi.nodes() if n["k"] == "if" and not (pi.parent(n) is not None and pi.parent(n).get("k") == "if" and pi.parent(n).get("else") is n)]
    arms = chain_arms(pi, heads[0]) if heads else []
    ok3 = False
    detail = ""
    if len(arms) == 3:
        c0 = astq.estr(arms[0][0]).replace(" ", "")
        b0 = [x for x in walk(arms[0][1]) if x["k"] == "bin" and x["op"] == "+"]
        off = astq.const_value(b0[0]["rhs"]) if b0 else None
        c1 = astq.estr(arms[1][0]).replace(" ", "")
        b1 = [x["n"] for x in walk(arms[1][1]) if x["k"] == "ref" and x.get("dk") == "enumc"]
        ok3 = c0 == "((n==-1)||((n>=1)&&(n<=16)))" and off == E["OP_1"] - 1 and c1 == "(n==0)" and b1 == ["OP_0"]
        detail = "%s -> n+%s; %s -> %s" % (c0, off, c1, b1)
    ctx.inst(ok3, "R07.3", "push_int64", pi.loc(), "push_int64: -1,1..16 -> n + (OP_1-1); 0 -> OP_0; else serialized number",
             "push_int64 maps small integers as `%s`; expected -1,1..16 -> n+%d and 0 -> OP_0" % (detail, E["OP_1"] - 1))
    ctx.inst(single_rejected == [(1, 16), (129, 129)] and single_other in (["eq(opcode, m:size(data))"], ["eq(opcode, 1)"]) and empty_ret == ["eq(opcode, 0)"], "R07.3", "judge-single-byte", judge.loc(),
             "CheckMinimalPush rejects single bytes 1..16 and 0x81 (must be OP_1..OP_16 / OP_1NEGATE); an empty push must be OP_0",
             "CheckMinimalPush rejects the single bytes %s (expected 1..16 and 0x81), judges other single bytes by %s and the empty push by %s" % (single_rejected, single_other, empty_ret))
    opstep = fb.fn("StepScript", file="script/interpreter.cpp")
    dec = None
    for n in opstep.nodes():
        if n["k"] == "bin" and n["op"] == "-" and astq.estr(n["lhs"]).endswith("opcode") and astq.const_value(n["rhs"]) is not None:
            dec = n
    ok_dec = dec is not None and astq.const_value(dec["rhs"]) == E["OP_1"] - 1
    if dec is not None:
        sws = [s_ for s_ in S.find_switches(opstep) if astq.estr(s_["cond"]) == "opcode"]
        g = S.group_of(S.case_groups(sws[0]), dec) if sws else None
        labs = set(g.names()) if g else set()
        want = {"OP_1NEGATE"} | {"OP_%d" % i for i in range(1, 17)}
        ok_dec = ok_dec and labs == want
    ctx.inst(ok_dec, "R07.3", "interpreter-decode", opstep.loc(dec) if dec is not None else opstep.loc(),
             "the interpreter decodes OP_1NEGATE, OP_1..OP_16 as opcode - (OP_1-1)")

    # ---- R07.4 the opcode-name lookup of the literal parser sees the token as it was written: an explicit `0x` makes a token a
    # byte string, so `0x10` must not reach GetOpCode as "10" (a name of the table: OP_10). No assignment to the token pointer /
    # length parameter reaches the lookup call.
    ctx.rule("R07.4", "Value's literal parser looks the token up as an opcode name before any rewriting of the token (0x stripping)")
    n74 = 0
    for f in sorted(fb.funcs.values(), key=lambda f_: f_.id):
        if f.body is None or f.rec != "Value" or f.short != "Value":
            continue
        lookups = [n for n in f.nodes() if n["k"] == "call" and n.get("n") == "GetOpCode" and n.get("args") and n["args"][0] is not None]
        for cn in lookups:
            a0 = cn["args"][0]
            while a0 is not None and a0.get("k") in ("cast", "paren"):
                a0 = a0["e"]
            if a0 is None or a0.get("k") != "ref" or a0.get("dk") != "parm":
                continue
            n74 += 1
            ctx.site()
            fcfg = f.cfg()
            pos = fcfg.position(cn)
            rewrites = []
            for n in f.nodes():
                tgt = n["lhs"] if n["k"] in ("assign", "cassign") else (n["e"] if n["k"] == "un" and n.get("op") in ("++", "--") else None)
                if tgt is not None and tgt.get("k") == "ref" and tgt.get("d") == a0.get("d"):
                    q = fcfg.position(n)
                    if pos is not None and q is not None and (q[0] == pos[0] and q[1] < pos[1] or (q[0] != pos[0] and pos[0] in fcfg.reachable_from(q[0]))):
                        rewrites.append(n)
            ctx.inst(not rewrites, "R07.4", "opcode-lookup-sees-the-token-as-written", f.loc(cn), "no rewrite of `%s` reaches GetOpCode(%s)" % (a0["n"], a0["n"]),
                     "`%s` at line %s rewrites the token before GetOpCode(%s): with the `0x` stripped, the byte literals 0x10 .. 0x16 are looked up as the names \"10\" .. \"16\" and compile to OP_10 .. OP_16 instead of one-byte pushes"
                     % (astq.estr(rewrites[0])[:40] if rewrites else "", rewrites[0].get("l") if rewrites else "", a0["n"]))
    ctx.floor("R07.4", n74, 1, "opcode-name lookups in Value's constructors")


MUTANTS = [
    dict(name="prefix-stripped-before-the-name-lookup", file="value.h", find="        // opcode check\n        opcode = GetOpCode(v);", replace="        if (vlen > 2 && v[0] == '0' && v[1] == 'x') { vlen -= 2; v = &v[2]; }\n        // opcode check\n        opcode = GetOpCode(v);", expect=["R07.4:opcode-lookup-sees-the-token-as-written"]),
    dict(name="hex-early-out", file="debugger/script.cpp", find="    // push value\n    #define c(v)", replace="    if (IsHex(name)) return OP_INVALIDOPCODE;\n    // push value\n    #define c(v)", expect=["R07.1:exit-before-table"]),
    dict(name="row-returns-neighbour", file="debugger/script.cpp", find="    c(SWAP);\n", replace="    if (!strcmp(\"SWAP\", name)) return OP_ROT;\n", expect=["R07.1:row=SWAP"]),
    dict(name="row-removed", file="debugger/script.cpp", find="    c(NOP3);\n", replace="", expect=["R07.1:accepted=OP_NOP3"]),
    dict(name="opname-wrong", file="script/script.cpp", find="return \"OP_TUCK\";", replace="return \"OP_ROT\";", expect=["R07.1:name-of=OP_TUCK"]),
    dict(name="writer-threshold-4d", file="script/script.h", find="        if (b.size() < OP_PUSHDATA1)\n", replace="        if (b.size() < OP_PUSHDATA2)\n", expect=["R07.2:writer-ladder"]),
    dict(name="writer-ff-exclusive", file="script/script.h", find="        else if (b.size() <= 0xff)\n", replace="        else if (b.size() < 0xff)\n", expect=["R07.2:writer-ladder"]),
    dict(name="judge-76", file="script/script.cpp", find="} else if (data.size() <= 75) {", replace="} else if (data.size() <= 76) {", expect=["R07.2:judge-ladder"]),
    dict(name="reader-advance-wrong", file="script/script.cpp", find="            nSize = ReadLE16(&pc[0]);\n            pc += 2;", replace="            nSize = ReadLE16(&pc[0]);\n            pc += 4;", expect=["R07.2:reader-advance"]),
    dict(name="push-int-15", file="script/script.h", find="if (n == -1 || (n >= 1 && n <= 16))", replace="if (n == -1 || (n >= 1 && n <= 15))", expect=["R07.3:push_int64"]),
    dict(name="decode-offset", file="script/interpreter.cpp", find="CScriptNum bn((int)opcode - (int)(OP_1 - 1));", replace="CScriptNum bn((int)opcode - (int)(OP_1));", expect=["R07.3:interpreter-decode"]),
    dict(name="opcode-byte-changed", file="script/script.h", find="OP_CHECKSIGADD = 0xba,", replace="OP_CHECKSIGADD = 0xbb,", expect=["R07.1:byte=OP_CHECKSIGADD"]),
]
