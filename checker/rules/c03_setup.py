"""Session set-up (Instance::configure_tx_txin) on G-SYM outcomes, shared by C03 (R03.3 / R03.6), C02 (R02.2) and C05 (R05.2).

Every path of configure_tx_txin that returns true is summarised by: the script version it selected (sigver), the decided
conditions (as terms over the transaction), the signing data it filled (execdata.*) and the commitment environment it created.
The same is done for the batch twin VerifyWitnessProgram. Rules then read, per success path, which commitments were compared
(and rejected on mismatch - a path on which the comparison failed does not return true), under which annex / size / leaf-version
conditions, independent of how the function is laid out (switch or if-chain on the witness version, helpers, early returns,
hoisted or renamed locals)."""
from .. import symx
from ..symx import C
from ..facts import AnalysisBroken

SIGVER = {"BASE": 0, "WITNESS_V0": 1, "TAPROOT": 2, "TAPSCRIPT": 3}
THIS = ("a", "this")
EX = ("f", THIS, "execdata")
_memo = {}


def _explorer(prog, files, root=None):
    """free helpers of the same file are inlined; so is a member function that only the analysed function calls (a block of it that
    was extracted into a private method) - methods with other callers (parse_script, ...) stay uninterpreted symbols"""
    private = set()
    if root is not None:
        callers = {}
        for f in prog.facts.funcs.values():
            if f.body is None:
                continue
            for (_n, c) in prog.callees(f):
                callers.setdefault(c.id, set()).add(f.id)
        for fid, cs in callers.items():
            g = prog.facts.funcs.get(fid)
            if g is not None and g.rec == root.rec and g.rec is not None and g.file in files and cs == {root.id}:
                private.add(fid)
    return symx.Explorer(prog, inline=lambda fn, n: fn.file in files and (fn.rec is None or fn.id in private), transparent=lambda n: True)


def setup_outcomes(fb, prog):
    """[Outcome] of configure_tx_txin returning true (same-file free helpers inlined)"""
    key = ("cf", fb.tree_hash)
    if key in _memo:
        return _memo[key]
    for rec, names in (("Instance", ["sigver", "execdata", "tce", "tx", "txin", "txin_index", "txin_vout_index"]),
                       ("ScriptExecutionData", ["m_annex_init", "m_annex_present", "m_tapleaf_hash_init", "m_validation_weight_left", "m_validation_weight_left_init"]),
                       ("CTxIn", ["scriptWitness", "scriptSig"]), ("CTxOut", ["scriptPubKey", "nValue"])):
        have = set(fb.record_fields(rec))
        miss = [x for x in names if x not in have]
        if miss:
            raise AnalysisBroken("set-up rules: anchor name(s) %s not found in %s - renamed or restructured; update the anchor table" % (miss, rec))
    cf = fb.fn("Instance::configure_tx_txin")
    X = _explorer(prog, ("instance.cpp",), cf)
    try:
        outs = X.explore(cf, this=THIS, limit=200000)
    except symx.Unsupported as e:
        raise AnalysisBroken("set-up rules: configure_tx_txin: %s" % e)
    ok = [o for o in outs if o.status == "ret" and o.ret == C(1)]
    if len(ok) < 5:
        raise AnalysisBroken("set-up rules: configure_tx_txin has only %d accepting paths" % len(ok))
    _memo[key] = (cf, ok, len(outs))
    return _memo[key]


def twin_outcomes(fb, prog):
    key = ("twin", fb.tree_hash)
    if key in _memo:
        return _memo[key]
    vwp = fb.fn("VerifyWitnessProgram")
    X = _explorer(prog, ())
    if len(vwp.params) != 7:
        raise AnalysisBroken("set-up rules: VerifyWitnessProgram takes %d parameters" % len(vwp.params))
    names = ["witness", "witversion", "program", "flags", "checker", "serror", "is_p2sh"]
    try:
        outs = X.explore(vwp, params={p["n"]: ("a", c) for p, c in zip(vwp.params, names)}, limit=200000)
    except symx.Unsupported as e:
        raise AnalysisBroken("set-up rules: VerifyWitnessProgram: %s" % e)
    _memo[key] = (vwp, [o for o in outs if o.status == "ret"])
    return _memo[key]


def sigver_of(o):
    v = o.field(THIS, "sigver")
    return v[1] if symx.is_const(v) else None


def exec_field(o, name, base=EX):
    return o.heap.get((base, name))


def true_conds(o):
    return [t for (t, v) in o.conds if v]


def has_sub(t, pred):
    return any(pred(x) for x in symx.subterms(t))


def is_field(x, name):
    return isinstance(x, tuple) and len(x) == 3 and x[0] == "f" and x[2] == name


def hash_eq(o):
    """[(hash name, hashed term, other side)] for every decided-true equality one side of which is a Value hash transform"""
    out = []
    for t in true_conds(o):
        if not (isinstance(t, tuple) and t[0] == "eq"):
            continue
        for side, other in ((t[1], t[2]), (t[2], t[1])):
            hs = [x for x in symx.subterms(side) if isinstance(x, tuple) and x[0] == "ap" and x[1] in ("mut:do_sha256", "mut:do_hash160", "mut:do_hash256", "mut:do_ripemd160")]
            if hs:
                out.append((hs[0][1][4:], hs[0][2], other))
    return out


def size_eq(o, term):
    """constants k with a decided-true size(term) == k"""
    ks = []
    for t in true_conds(o):
        if isinstance(t, tuple) and t[0] == "eq" and ("ap", "m:size", term) in t[1:]:
            other = t[2] if t[1] == ("ap", "m:size", term) else t[1]
            if symx.is_const(other):
                ks.append(other[1])
    return ks


def witness_stack_terms(o):
    """terms X such that a condition of the path measures X.size() and X is a (possibly popped) witness stack"""
    out = []
    for (t, v) in o.conds:
        for x in symx.subterms(t):
            if isinstance(x, tuple) and x[0] == "ap" and x[1] == "m:size" and has_sub(x[2], lambda y: is_field(y, "scriptWitness") or is_field(y, "stack")):
                if x[2] not in out:
                    out.append(x[2])
    return out


def annex_facts(conds, stack_pred):
    """the three BIP341 annex conjuncts as decided on a path, for the stack S selected by stack_pred:
    (size(S) >= 2, !back(S).empty(), back(S)[0] == 0x50) -> truth values (None when not decided)"""
    ge2 = nonempty = tag = None
    for (t, v) in conds:
        if isinstance(t, tuple) and t[0] == "ap" and t[1] == "<" and len(t) == 4 and t[3] == C(2) and isinstance(t[2], tuple) and t[2][:2] == ("ap", "m:size") and stack_pred(t[2][2]):
            ge2 = not v
        if isinstance(t, tuple) and t[0] == "ap" and t[1] == "m:empty" and isinstance(t[2], tuple) and t[2][:2] == ("ap", "m:back") and stack_pred(t[2][2]):
            nonempty = not v
        if isinstance(t, tuple) and t[0] == "eq" and C(0x50) in t[1:]:
            other = t[2] if t[1] == C(0x50) else t[1]
            if isinstance(other, tuple) and other[:2] == ("ap", "[]") and other[3] == C(0) and isinstance(other[2], tuple) and other[2][:2] == ("ap", "m:back") and stack_pred(other[2][2]):
                tag = v
    return ge2, nonempty, tag


def core(t):
    """strip value-preserving wrappers (.data, data_value(), single-argument conversions)"""
    while isinstance(t, tuple):
        if t[0] == "f" and t[2] == "data":
            t = t[1]
        elif t[0] == "ap" and len(t) == 3 and (t[1] == "m:data_value" or t[1].startswith("ctor:")):
            t = t[2]
        else:
            break
    return t


def from_witness(t):
    return has_sub(t, lambda y: is_field(y, "scriptWitness"))


def from_scriptsig(t):
    return has_sub(t, lambda y: is_field(y, "scriptSig"))


def from_spk(t):
    return has_sub(t, lambda y: is_field(y, "scriptPubKey"))


def sized(o, k):
    """terms T (core form) with a decided-true size(T) == k on the path"""
    out = []
    for t in true_conds(o):
        if isinstance(t, tuple) and t[0] == "eq":
            for a, b in ((t[1], t[2]), (t[2], t[1])):
                if b == C(k) and isinstance(a, tuple) and a[:2] == ("ap", "m:size"):
                    out.append(core(a[2]))
    return out


def witness_hash_eq(o):
    """(hash, hashed item, program) of the decided-true comparison of a hash of the last witness item with the program"""
    for (h, x, other) in hash_eq(o):
        if has_sub(x, lambda y: isinstance(y, tuple) and y[:2] == ("ap", "m:back") and from_witness(y[2])):
            return h, x, core(other)
    return None


def program_of(o):
    """the witness program the path committed to: v0 - the value the witness hash was compared with; v1 - the 32-byte push"""
    sv = sigver_of(o)
    if sv == 1:
        w = witness_hash_eq(o)
        return w[2] if w else None
    c = [t for t in sized(o, 32) if not from_witness(t)]
    return c[-1] if c else None


def wrapped_hash(o):
    """(X, other) of a decided-true HASH160(X) == other with X taken from scriptSig and other from the scriptPubKey"""
    for (h, x, other) in hash_eq(o):
        if h == "do_hash160" and from_scriptsig(x) and from_spk(other) and not has_sub(x, lambda y: isinstance(y, tuple) and y[:2] == ("ap", "m:back") and from_witness(y[2])):
            return core(x), core(other)
    return None


def size_lower_bound(conds, S):
    """largest k with size(S) >= k decided on the path"""
    lo = 0
    sz = ("ap", "m:size", S)
    for (t, v) in conds:
        if not isinstance(t, tuple):
            continue
        if t[0] == "ap" and t[1] == "<" and len(t) == 4:
            if t[2] == sz and symx.is_const(t[3]) and not v:
                lo = max(lo, t[3][1])
            if t[3] == sz and symx.is_const(t[2]) and v:
                lo = max(lo, t[2][1] + 1)
        if t[0] == "eq" and v and sz in t[1:]:
            other = t[2] if t[1] == sz else t[1]
            if symx.is_const(other):
                lo = max(lo, other[1])
        if t == sz and v:
            lo = max(lo, 1)
    return lo


def annex_row(conds, heap_present, stack_pred):
    """(size>=2 decided, last item non-empty decided, tag decided, m_annex_present) of a path; None entries = not decided"""
    ge2 = nonempty = tag = None
    stacks = []
    for (t, v) in conds:
        for x in symx.subterms(t):
            if isinstance(x, tuple) and x[:2] == ("ap", "m:size") and stack_pred(x[2]) and x[2] not in stacks:
                stacks.append(x[2])
    for S in stacks:
        back = ("ap", "m:back", S)
        for (t, v) in conds:
            if t == ("ap", "m:empty", back):
                nonempty = not v
            if t == ("ap", "<", C(0), ("ap", "m:size", back)):
                nonempty = v
            if isinstance(t, tuple) and t[0] == "eq" and ("ap", "[]", back, C(0)) in t[1:]:
                other = t[2] if t[1] == ("ap", "[]", back, C(0)) else t[1]
                if symx.is_const(other):
                    tag = (other[1], v)
        if nonempty is not None or tag is not None:
            lo = size_lower_bound(conds, S)
            ge2 = lo
            # an explicit "size < 2" decided true
            for (t, v) in conds:
                if t == ("ap", "<", ("ap", "m:size", S), C(2)) and v:
                    ge2 = -1
            break
    if ge2 is None:
        for S in stacks:
            for (t, v) in conds:
                if t == ("ap", "<", ("ap", "m:size", S), C(2)) and v:
                    ge2 = -1
    return ge2, nonempty, tag, heap_present


def annex_table(outcomes, present_of, stack_pred, want):
    rows = set()
    for o in outcomes:
        if not want(o):
            continue
        rows.add(annex_row(o.conds, present_of(o), stack_pred))
    return rows


def heap_by_name(o, name):
    vals = [v for (k, v) in o.heap.items() if k[1] == name]
    return vals[-1] if vals else None


def norm_stack(t, stacks):
    """replace every witness-stack term by the atom STACK"""
    def go(x):
        if x in stacks:
            return ("a", "STACK")
        if isinstance(x, tuple):
            return tuple(go(y) for y in x)
        return x
    return go(t)


def base_stack(t):
    """the witness stack a (possibly popped / copied) stack term derives from"""
    while isinstance(t, tuple) and t[0] == "ap" and t[1].startswith("mut:") and len(t) >= 3:
        t = t[2]
    return t


def _sh(t, n=110):
    return symx.show(t)[:n]


def control_conds(o, control):
    """decided conditions that measure the control block, with the control block normalised"""
    sz = ("ap", "m:size", control)
    out = set()
    for (t, v) in o.conds:
        if symx.contains(t, sz):
            out.add((norm_stack(t, (control,)), v))
    return frozenset(out)


def leaf_conds(o, control):
    """decided (mask, value, truth) of (control[0] & mask) == value"""
    out = set()
    b0 = ("ap", "[]", control, C(0))
    for (t, v) in o.conds:
        if isinstance(t, tuple) and t[0] == "eq":
            for a, b in ((t[1], t[2]), (t[2], t[1])):
                if symx.is_const(b) and isinstance(a, tuple) and a[:2] == ("ap", "&") and b0 in a[2:]:
                    m = [x for x in a[2:] if x != b0]
                    if m and symx.is_const(m[0]):
                        out.add((m[0][1], b[1], v))
    return out


def twin_tapscript(fb, prog):
    """per twin path that hands a tapscript to ExecuteWitnessScript: (control term, outcome)"""
    vwp, touts = twin_outcomes(fb, prog)
    res = []
    for o in touts:
        if isinstance(o.ret, tuple) and o.ret[:2] == ("ap", "ExecuteWitnessScript") and heap_by_name(o, "m_tapleaf_hash_init") == C(1):
            ctl = None
            for (t, v) in o.conds:
                if isinstance(t, tuple) and t[:2] == ("ap", "VerifyTaprootCommitment") and v:
                    ctl = t[2]
            if ctl is None:
                raise AnalysisBroken("set-up rules: VerifyWitnessProgram reaches the tapscript execution without a decided VerifyTaprootCommitment")
            res.append((ctl, o))
    if not res:
        raise AnalysisBroken("set-up rules: no tapscript path found in VerifyWitnessProgram")
    return res


def check_commitments(ctx, fb, prog, rule="R03.3"):
    cf, ok, npaths = setup_outcomes(fb, prog)
    ctx.site(len(ok))
    by = {}
    for o in ok:
        by.setdefault(sigver_of(o), []).append(o)
    wit = [o for o in ok if sigver_of(o) in (1, 2, 3)]
    if not by.get(1) or not by.get(2) or not by.get(3):
        raise AnalysisBroken("set-up rules: configure_tx_txin has no accepting path for script version(s) %s" % [k for k in (1, 2, 3) if not by.get(k)])
    # P2SH-wrapped: a program taken from scriptSig is used only after HASH160(push) == the scriptPubKey's hash
    bad = []
    nwrapped = 0
    for o in wit:
        P = program_of(o)
        if P is None:
            continue
        if from_scriptsig(P):
            nwrapped += 1
            wh = wrapped_hash(o)
            if wh is None or not symx.contains(P, wh[0]):
                bad.append(o)
    ctx.inst(nwrapped > 0 and not bad, rule, "p2sh-wrapped-hash-checked", cf.loc(),
             "on all %d accepting paths whose witness program is pushed by scriptSig, HASH160(push) == the scriptPubKey's hash was decided before (a mismatch does not reach success)" % nwrapped,
             "the P2SH-wrapped witness program is used without a rejecting comparison of its HASH160 with the scriptPubKey's hash (%s)" %
             ("no accepting path takes the program from scriptSig" if not nwrapped else ("accepting path with script version %s, program %s" % (sigver_of(bad[0]), _sh(program_of(bad[0]), 70)) if bad else "")))
    # v0: SHA256 for 32-byte programs, HASH160 for 20-byte programs, of the last witness item
    badh, bads = [], []
    for o in by[1]:
        w = witness_hash_eq(o)
        if w is None:
            badh.append((o, "no decided-true comparison of a hash of the last witness item with the program"))
            continue
        ks = [k for k in (20, 32) if w[2] in sized(o, k)]
        if len(ks) != 1:
            bads.append(o)
            continue
        if (ks[0], w[0]) not in ((32, "do_sha256"), (20, "do_hash160")):
            badh.append((o, "a %d-byte program is compared with %s of the last witness item" % (ks[0], w[0][3:].upper())))
    ctx.inst(not badh, rule, "v0-program-hash-checked", cf.loc(),
             "on all %d accepting v0 paths SHA256 (32-byte program) / HASH160 (20-byte program) of the last witness item == program was decided" % len(by[1]),
             "the v0 witness script / key is used without a rejecting comparison of its hash (SHA256 for P2WSH, HASH160 for P2WPKH) with the witness program: %s" % (badh[0][1] if badh else ""))
    ctx.inst(not bads, rule, "v0-program-size", cf.loc(), "the program must be 32 bytes for P2WSH and 20 bytes for P2WPKH",
             "a v0 session is accepted without the program size being decided 20 or 32")
    # v1 script path: commitment environment over (control, program, script)
    badt = []
    for o in by[3]:
        tce = o.heap.get((THIS, "tce"))
        P = program_of(o)
        if not (isinstance(tce, tuple) and tce[0] == "ap" and tce[1].startswith("new:") and "TaprootCommitmentEnv" in tce[1] and len(tce) >= 5):
            badt.append("no commitment environment is created")
            continue
        ctl, prg, scr = tce[2], tce[3], tce[4]
        if not (isinstance(ctl, tuple) and ctl[:2] == ("ap", "m:back") and from_witness(ctl)):
            badt.append("its control block is %s, not the last witness item" % _sh(ctl, 60))
        elif P is None or core(prg) != P:
            badt.append("its program is %s, not the 32-byte witness program" % _sh(prg, 60))
        elif not (from_witness(scr) and has_sub(scr, lambda y: isinstance(y, tuple) and y[:2] == ("ap", "m:back") and base_stack(y[2]) != y[2] and base_stack(y[2]) == base_stack(ctl[2]))):
            badt.append("its script is %s, not the witness item below the control block" % _sh(scr, 60))
    ctx.inst(not badt, rule, "v1-script-path-commitment", cf.loc(),
             "every accepting tapscript path creates the commitment check over (control = last witness item, program, script = the item below)",
             "SigVersion::TAPSCRIPT is chosen without constructing the taproot commitment check over (control, program, script): %s" % (badt[0] if badt else ""))
    return by



def check_sigver(ctx, fb, prog, rule="R03.7"):
    cf, ok, npaths = setup_outcomes(fb, prog)
    ctx.site()
    unset = [o for o in ok if sigver_of(o) is None]
    ctx.inst(not unset, rule, "sigver-assigned-on-every-path", cf.loc(),
             "all %d accepting paths leave a constant script version" % len(ok),
             "configure_tx_txin can return true without assigning sigver: the input inherits the version pre-set from the whole transaction "
             "(WITNESS_V0 if any other input has a witness), so a legacy input of a mixed transaction is checked under BIP143 rules")
    nowit = [o for o in ok if _witness_empty(o)]
    ctx.inst(bool(nowit) and all(sigver_of(o) == 0 for o in nowit) and all(_witness_empty(o) for o in ok if sigver_of(o) == 0), rule, "legacy-branch-is-BASE", cf.loc(),
             "an input without witness is executed as SigVersion::BASE (and only such an input)",
             "an input whose witness stack is empty is not set up as SigVersion::BASE (or BASE is chosen for an input with witness)")


def _witness_empty(o):
    for (t, v) in o.conds:
        if isinstance(t, tuple) and t[0] == "ap" and t[1] == "<" and len(t) == 4 and t[2] == C(0) and isinstance(t[3], tuple) and t[3][:2] == ("ap", "m:size") and from_witness(t[3][2]) and base_stack(t[3][2]) == t[3][2]:
            return not v
        if isinstance(t, tuple) and t[:2] == ("ap", "m:empty") and from_witness(t[2]) and base_stack(t[2]) == t[2] and not has_sub(t[2], lambda y: isinstance(y, tuple) and y[:2] == ("ap", "m:back")):
            return v
        if isinstance(t, tuple) and t[:2] == ("ap", "m:size") and from_witness(t[2]) and base_stack(t[2]) == t[2]:
            return not v
        if isinstance(t, tuple) and t[0] == "eq" and C(0) in t[1:]:
            other = t[2] if t[1] == C(0) else t[1]
            if isinstance(other, tuple) and other[:2] == ("ap", "m:size") and from_witness(other[2]) and base_stack(other[2]) == other[2]:
                return v
    return False


def check_agreement(ctx, fb, prog, rule="R03.6"):
    cf, ok, npaths = setup_outcomes(fb, prog)
    vwp, touts = twin_outcomes(fb, prog)
    tap = [o for o in ok if sigver_of(o) in (2, 3)]
    ts = [o for o in ok if sigver_of(o) == 3]
    ctx.site(len(tap))
    # annex
    mine = annex_table(tap, lambda o: exec_field(o, "m_annex_present"), from_witness, lambda o: True)
    twin = annex_table(touts, lambda o: heap_by_name(o, "m_annex_present"), lambda s: symx.contains(s, ("a", "witness")), lambda o: heap_by_name(o, "m_annex_present") is not None)
    if len(twin) < 3:
        raise AnalysisBroken("set-up rules: the annex decisions of VerifyWitnessProgram were not recognised (%s)" % sorted(twin, key=repr))

    # the annex hash: same hasher, same serialisation (a byte vector is written with its compact-size length, a Span without) of
    # the last witness item
    def last_item(t, stack_pred):
        def go(x):
            if isinstance(x, tuple) and x[:2] == ("ap", "m:back") and len(x) == 3 and stack_pred(x[2]):
                return ("a", "LAST-WITNESS-ITEM")
            if isinstance(x, tuple) and x[:2] == ("ap", "SpanPopBack") and len(x) == 3 and stack_pred(x[2]):
                return ("a", "LAST-WITNESS-ITEM")
            if isinstance(x, tuple) and x and x[0] == "ap" and x[1] in ("new:Span", "Span", "MakeSpan", "new:std::vector") and len(x) == 3:
                return go(x[2])      # a view / copy of the item: what is written is decided by the operand type recorded in the stream term
            if isinstance(x, tuple):
                return tuple(go(y) for y in x)
            return x
        return go(t)
    mine_h = {last_item(exec_field(o, "m_annex_hash"), from_witness) for o in tap if exec_field(o, "m_annex_present") == C(1) and exec_field(o, "m_annex_hash") is not None}
    twin_h = {last_item(heap_by_name(o, "m_annex_hash"), lambda s_: symx.contains(s_, ("a", "witness"))) for o in touts if heap_by_name(o, "m_annex_present") == C(1) and heap_by_name(o, "m_annex_hash") is not None}
    if len(twin_h) != 1 or not symx.contains(list(twin_h)[0], ("a", "LAST-WITNESS-ITEM")):
        raise AnalysisBroken("set-up rules: the annex hash of VerifyWitnessProgram was not recognised (%s)" % [symx.show(t)[:80] for t in twin_h])
    ctx.inst(mine_h == twin_h, rule, "annex-hash", cf.loc(), "the annex hash of set-up is VerifyWitnessProgram's: %s" % symx.show(list(twin_h)[0])[:100],
             "the annex hash at set-up is %s, the verifier's is %s: signatures over a spend with an annex commit to a different sha_annex (valid ones fail, others pass)"
             % ("; ".join(symx.show(t)[:110] for t in sorted(mine_h, key=repr)) or "never computed", symx.show(list(twin_h)[0])[:110]))

    def row(r):
        return "size>=%s, non-empty=%s, tag=%s -> present=%s" % (r[0] if r[0] != -1 else "<2", r[1], r[2], symx.show(r[3]) if r[3] is not None else "unset")
    ctx.inst(mine == twin, rule, "annex-rule", cf.loc(), "the annex decisions of set-up equal VerifyWitnessProgram's: %s" % "; ".join(row(r) for r in sorted(twin, key=repr)),
             "annex rule at set-up differs from VerifyWitnessProgram's: only at set-up {%s}; only in the verifier {%s}" % ("; ".join(row(r) for r in sorted(mine - twin, key=repr)), "; ".join(row(r) for r in sorted(twin - mine, key=repr))))
    # validation weight
    def stacks_of(o, pred):
        st = set()
        for (t, v) in list(o.conds) + [(x, None) for x in o.heap.values()]:
            for x in symx.subterms(t):
                if isinstance(x, tuple) and x[0] == "f" and x[2] == "stack" and pred(x):
                    st.add(x)
        return st
    w1 = {norm_stack(exec_field(o, "m_validation_weight_left"), stacks_of(o, from_witness)) if exec_field(o, "m_validation_weight_left") is not None else None for o in ts}
    tw = twin_tapscript(fb, prog)
    w2 = {norm_stack(heap_by_name(o, "m_validation_weight_left"), {("f", ("a", "witness"), "stack")}) for (c, o) in tw}
    ctx.site()
    ctx.inst(bool(w1) and w1 == w2 and all(exec_field(o, "m_validation_weight_left_init") == C(1) for o in ts), rule, "validation-weight", cf.loc(),
             "validation weight = %s on every tapscript path, as in VerifyWitnessProgram" % "/".join(_sh(x) for x in w2),
             "validation weight at set-up `%s` differs from VerifyWitnessProgram's `%s`" % ("/".join(_sh(x) if x else "unset" for x in w1), "/".join(_sh(x) for x in w2)))
    # the witness / scriptSig / scriptPubKey read are those of the selected input and the output it spends
    badw = []
    nref = 0
    for o in ok:
        for (t, v) in list(o.conds) + [(x, None) for x in o.heap.values()]:
            for x in symx.subterms(t):
                if isinstance(x, tuple) and x[0] == "f" and x[2] in ("scriptWitness", "scriptSig", "scriptPubKey"):
                    nref += 1
                    b = x[1]
                    want = "txin_index" if x[2] != "scriptPubKey" else "txin_vout_index"
                    cont = "vin" if x[2] != "scriptPubKey" else "vout"
                    if not (isinstance(b, tuple) and b[:2] == ("ap", "[]") and is_field(b[2], cont) and b[3] == ("f", THIS, want)):
                        badw.append("%s.%s" % (_sh(b, 70), x[2]))
    ctx.inst(nref > 0 and not badw, rule, "witness-of-selected-input", cf.loc(), "witness and scriptSig are read from vin[txin_index], the scriptPubKey from vout[txin_vout_index] (full witness stack, annex included, is what is weighed)",
             "set-up reads %s" % (badw[0] if badw else "no witness at all"))
    nop = [o for o in tap if program_of(o) is None]
    ctx.inst(not nop, rule, "v1-program-size", cf.loc(), "a v1 program must be WITNESS_V1_TAPROOT_SIZE (32) bytes on every accepting taproot path", "a taproot session is accepted without the program size being decided 32")
    # leaf version
    twl = set()
    for (c, o) in tw:
        twl |= {x for x in leaf_conds(o, c)}
    if not twl:
        raise AnalysisBroken("set-up rules: VerifyWitnessProgram's leaf-version test was not recognised")
    badl = []
    for o in ts:
        tce = o.heap.get((THIS, "tce"))
        ctl = tce[2] if isinstance(tce, tuple) and len(tce) > 2 else None
        lc = leaf_conds(o, ctl) if ctl is not None else set()
        if not (lc and lc <= twl):
            badl.append(lc)
    ctx.inst(not badl, rule, "leaf-version-dispatch", cf.loc(), "only leaf version (control[0] & 0x%02x) == 0x%02x is executed as tapscript; others are refused" % tuple(sorted(twl)[0][:2]),
             "a tapscript session is accepted with the leaf-version decision %s; VerifyWitnessProgram executes as tapscript only when %s" % (sorted(badl[0]) if badl else "", sorted(twl)))
    return ts, tw


def check_control_size(ctx, fb, prog, rule="R05.2"):
    cf, ok, npaths = setup_outcomes(fb, prog)
    ts = [o for o in ok if sigver_of(o) == 3]
    tw = twin_tapscript(fb, prog)
    ctx.site()
    a = set()
    for o in ts:
        tce = o.heap.get((THIS, "tce"))
        ctl = tce[2] if isinstance(tce, tuple) and len(tce) > 2 else None
        a.add(control_conds(o, ctl) if ctl is not None else frozenset())
    b = {control_conds(o, c) for (c, o) in tw}
    if not all(b):
        raise AnalysisBroken("set-up rules: VerifyWitnessProgram's control-size decisions were not recognised")

    def sh(s):
        return " & ".join(sorted(("" if v else "!") + symx.show(t) for (t, v) in s)) or "nothing"
    ctx.inst(bool(ts) and a == b, rule, "control-size-predicate", cf.loc(), "every accepting tapscript path decided the same control-size conditions as VerifyWitnessProgram: %s" % "; ".join(sh(s) for s in b),
             "control-size predicate at set-up {%s} differs from VerifyWitnessProgram's {%s}" % ("; ".join(sh(s) for s in a), "; ".join(sh(s) for s in b)))
    return a, b


def check_init_flag(ctx, fb, prog, flag, where, rule="R02.2"):
    cf, ok, npaths = setup_outcomes(fb, prog)
    need = {"m_annex_init": (2, 3), "m_tapleaf_hash_init": (3,), "m_validation_weight_left_init": (3,)}[flag]
    tgt = [o for o in ok if sigver_of(o) in need]
    if not tgt:
        raise AnalysisBroken("R02.2: no accepting taproot/tapscript path in configure_tx_txin")
    bad = []
    for o in tgt:
        okf = exec_field(o, flag) == C(1)
        if flag == "m_annex_init":
            okv = exec_field(o, "m_annex_present") is not None and symx.is_const(exec_field(o, "m_annex_present"))
        elif flag == "m_tapleaf_hash_init":
            tce = o.heap.get((THIS, "tce"))
            okv = isinstance(tce, tuple) and has_sub(tce, lambda y: isinstance(y, tuple) and y[0] == "hp" and y[1:] == (EX, "m_tapleaf_hash")) or exec_field(o, "m_tapleaf_hash") is not None
        else:
            okv = exec_field(o, flag[:-5]) is not None
        if not (okf and okv):
            bad.append(o)
    ctx.inst(not bad, rule, "init=" + flag, cf.loc(),
             "%s (asserted at %s) is set, with its value, on all %d accepting paths that select the taproot/tapscript version" % (flag, where, len(tgt)),
             "%s is asserted at %s but configure_tx_txin can select TAPROOT/TAPSCRIPT without setting it: the first signature check aborts on the assertion" % (flag, where))


def check_commitment_not_skipped(ctx, fb, prog, rule="R03.3"):
    """A session that was handed a commitment environment is not `done` before its first step, whatever the script (an empty
    tapscript has pc == pend from the start): decided on the paths of Instance::setup_environment with the commitment taken as
    present."""
    se = fb.fn("Instance::setup_environment")

    def assume(term, conds):
        def is_tce(x):
            return isinstance(x, tuple) and x[0] == "f" and x[2] == "tce" and x[1] == THIS
        if is_tce(term):
            return True
        if isinstance(term, tuple) and term[0] == "eq" and any(is_tce(x) for x in term[1:]) and (symx.NULL in term[1:] or C(0) in term[1:]):
            return False
        return None
    X = symx.Explorer(prog, assume=assume, inline=lambda fn, n: False, transparent=lambda n: True)
    try:
        outs = X.explore(se, this=THIS, limit=20000)
    except symx.Unsupported as e:
        raise AnalysisBroken("set-up rules: setup_environment: %s" % e)
    ctx.site(len(outs))
    handed = bad = 0
    for o in outs:
        if o.status != "ret":
            continue
        envs = {k[0] for (k, v) in o.heap.items() if k[1] == "tce" and k[0] != THIS and v == ("f", THIS, "tce")}
        for e_ in envs:
            handed += 1
            d = o.heap.get((e_, "done"))
            if d != C(0):
                bad += 1
    if not handed:
        raise AnalysisBroken("set-up rules: setup_environment does not hand Instance::tce to the session")
    ctx.inst(not bad, rule, "pending-commitment-not-done", se.loc(),
             "on all %d paths that hand a commitment environment to the session, the session's done flag is cleared" % handed,
             "setup_environment hands the commitment check to a session that may already be `done` (an empty tapscript has pc == pend at construction): "
             "the non-interactive run and `step` then never perform the commitment check - a script that does not match the program is executed as if it did")


def commitment_prologue(fb, prog):
    """{state name: [Outcome]} of the debugger's stepper when the session holds a commitment environment and its Iterate()
    returns that state (G-SYM; the dispatch may be a switch or an if-chain, the result may be held in a local)"""
    key = ("prologue", fb.tree_hash)
    if key in _memo:
        return _memo[key]
    st = fb.fn("StepScript", file="debugger/interpreter.cpp")
    en = [x for x in fb.enums if x["name"].endswith("TaprootCommitmentEnv::State") or x["name"] == "State"]
    if not en:
        raise AnalysisBroken("set-up rules: enum TaprootCommitmentEnv::State not found")
    res = {}
    for c in en[0]["consts"]:
        k = c.get("v", c.get("value"))

        def assume(term, conds, k=k):
            def is_tce(x):
                return isinstance(x, tuple) and x[0] == "f" and x[2] == "tce"
            if is_tce(term):
                return True
            if isinstance(term, tuple) and term[0] == "eq":
                if any(is_tce(x) for x in term[1:]) and (symx.NULL in term[1:] or C(0) in term[1:]):
                    return False
                for a, b in ((term[1], term[2]), (term[2], term[1])):
                    if symx.is_const(b) and isinstance(a, tuple) and a[:2] == ("ap", "m:Iterate"):
                        return b[1] == k
            if isinstance(term, tuple) and term[:2] == ("ap", "m:Iterate"):
                return k != 0
            return None
        X = symx.Explorer(prog, assume=assume, inline=lambda fn, n: False, transparent=lambda n: True)
        try:
            outs = X.explore(st, params={st.params[0]["n"]: ("a", "env")}, limit=5000)
        except symx.Unsupported as e:
            raise AnalysisBroken("set-up rules: stepper prologue: %s" % e)
        # paths that did call Iterate()
        outs = [o for o in outs if any(e.kind == "mcall" and e.name == "Iterate" for e in o.events)]
        if not outs:
            raise AnalysisBroken("set-up rules: the stepper does not call Iterate() on the commitment environment")
        res[c.get("n", c.get("name"))] = outs
    _memo[key] = (st, res)
    return _memo[key]


def advance_of(o, counter="curr_op_seq"):
    """how much the position counter moved on the path (None if not by a constant)"""
    vals = [val for (k, val) in o.heap.items() if k[1] == counter]
    if not vals:
        return 0
    c0, parts = symx.lin_parts(vals[-1])
    if len(parts) == 1:
        (t, k), = parts.items()
        if k == 1 and isinstance(t, tuple) and t[0] == "f" and t[2] == counter:
            return c0
    return None


def check_p2sh_once(ctx, fb, prog, rule="R03.5"):
    """BIP16 evaluates the redeem script once: when the stepper's end-of-script epilogue enters the redeem script (the new script
    is built from the saved stack's top element), the session must not be marked P2SH again - whatever the redeem script looks
    like. Read off the G-SYM paths of the stepper with its same-file helpers inlined."""
    st = fb.fn("StepScript", file="debugger/interpreter.cpp")

    def assume(term, conds):
        if isinstance(term, tuple) and term[0] == "f" and term[2] == "tce":
            return False
        if isinstance(term, tuple) and term[:2] == ("ap", "<") and any(isinstance(x, tuple) and x[0] == "f" and x[2] == "pc" for x in term[2:]):
            return False
        return None
    X = symx.Explorer(prog, assume=assume, inline=lambda fn, n: fn.file == st.file and fn.rec is None and fn.name != st.name, transparent=lambda n: True)
    try:
        outs = X.explore(st, params={st.params[0]["n"]: ("a", "env")}, limit=20000)
    except symx.Unsupported as e:
        raise AnalysisBroken("set-up rules: stepper epilogue: %s" % e)
    ctx.site(len(outs))
    entered = []
    for o in outs:
        if o.ret != C(1):
            continue
        sc = [v for (k, v) in o.heap.items() if k[1] == "script"]
        if sc and has_sub(sc[-1], lambda y: is_field(y, "p2shstack")):
            ip = [v for (k, v) in o.heap.items() if k[1] == "is_p2sh"]
            entered.append((o, ip[-1] if ip else None))
    if not entered:
        raise AnalysisBroken("set-up rules: no path of the stepper enters a redeem script taken from the saved stack")
    bad = [(o, ip) for (o, ip) in entered if ip != C(0)]
    ctx.inst(not bad, rule, "p2sh-continuation-once", st.loc(),
             "on all %d paths that enter the redeem script the P2SH mark is cleared" % len(entered),
             "after entering the redeem script the session's P2SH mark is %s: a redeem script that itself has the form HASH160 <20> EQUAL is followed by yet another "
             "script taken from the stack, which no listing shows and BIP16 does not execute" % (symx.show(bad[0][1])[:80] if bad and bad[0][1] is not None else "left as it was"))


def check_initial_stack(ctx, fb, prog, rule="R03.6"):
    """The initial stack of a witness session is the witness stack without annex, control block and script - the items themselves,
    not a re-parsed rendering of them: on every accepting witness path this.stack is filled by a loop that pushes W[i] for i below
    the size of the stack that is left after those pops."""
    cf, ok, npaths = setup_outcomes(fb, prog)
    wit = [o for o in ok if sigver_of(o) in (1, 2, 3)]
    ctx.site(len(wit))
    bad_items, bad_count, bad_limit = [], [], []
    for o in wit:
        st = o.heap.get((THIS, "stack"))
        sv = sigver_of(o)
        ok_shape = isinstance(st, tuple) and st[:2] == ("ap", "loopvar") and isinstance(st[3], tuple) and st[3][:2] == ("ap", "mut:push_back")
        W = bound = None
        if isinstance(st, tuple) and st[:2] == ("ap", "mut:insert") and len(st) == 6 and isinstance(st[4], tuple) and st[4][:2] == ("ap", "m:begin") and st[3] == ("ap", "m:end", st[2]):
            # the range form: stack.insert(stack.end(), W.begin(), W.begin() + n) copies the first n items as they are
            W0 = st[4][2]
            if from_witness(W0) and base_stack(W0) == W0:
                W = W0
                bound = symx.lin_add(st[5], st[4], -1)
        if W is None:
            if not ok_shape:
                bad_items.append((sv, symx.show(st)[:80] if st is not None else "not filled in configure_tx_txin (the items are handed on as text)"))
                continue
            item = st[3][3]
            if not (isinstance(item, tuple) and item[:2] == ("ap", "[]") and from_witness(item[2]) and base_stack(item[2]) == item[2]):
                bad_items.append((sv, symx.show(item)[:80]))
                continue
            W = item[2]
            key = st[2]
            if isinstance(key, tuple) and key[:2] == ("ap", "while") and isinstance(key[2], tuple) and key[2][:2] == ("ap", "<"):
                bound = key[2][3]
        # the limits ExecuteWitnessScript applies are limits of the *initial stack*: an item-size test decided on this path is about
        # the items of the session stack (or the first `bound` witness items), not about the whole witness - the witness script and
        # the control block may be larger than an element
        if sv in (1, 3):
            for (t_, v_) in o.conds:
                if isinstance(t_, tuple) and t_[:2] == ("ap", "<") and len(t_) == 4 and symx.is_const(t_[2]) and isinstance(t_[3], tuple) and t_[3][:2] == ("ap", "m:size") \
                        and isinstance(t_[3][2], tuple) and t_[3][2][0] == "elem":
                    cont = t_[3][2][1]
                    if not symx.contains(cont, ("f", THIS, "stack")) and from_witness(cont):
                        bad_limit.append((sv, t_[2][1], symx.show(cont)[:70]))
        if sv in (2, 3):
            annex = exec_field(o, "m_annex_present")
            k = (2 if sv == 3 else 0) + (1 if annex == C(1) else 0)
            t = W
            for _ in range(k):
                t = ("ap", "mut:pop_back", t)
            want = [("ap", "m:size", t)] + ([C(1)] if sv == 2 else [])
            if bound not in want:
                bad_count.append((sv, symx.show(annex) if annex is not None else "?", symx.show(bound)[:70] if bound is not None else "?"))
    ctx.inst(not bad_items, rule, "witness-items-verbatim", cf.loc(), "on all %d accepting witness paths the initial stack is filled with the witness items themselves" % len(wit),
             "the witness items do not reach the session's stack as they are: %s - an item whose hex rendering consists of decimal digits only (a signature like 300602010102010101) is re-read as a number" %
             (("script version %s: %s" % bad_items[0]) if bad_items else ""))
    ctx.inst(not bad_limit, rule, "element-limit-on-the-initial-stack", cf.loc(), "the element-size limit decided at set-up is about the items of the session's stack",
             "with script version %s the %s-byte element limit is applied to every item of `%s` - the whole witness, script and control block included: a P2WSH witness script of 521-10,000 bytes, or a control block with 16 or more path nodes, is refused although consensus exempts them"
             % (bad_limit[0] if bad_limit else ("", "", "")))
    ctx.inst(not bad_count, rule, "initial-stack-excludes-annex-control-script", cf.loc(), "the number of items pushed is the size of the witness stack after removing annex, control block and script",
             "with script version %s and annex present = %s the session is given %s witness items: the annex (or control block / script) is pushed as an argument - a key-path spend with an annex then checks the annex as the signature" %
             (bad_count[0] if bad_count else ("", "", "")))


def check_scripts_validated(ctx, fb, prog, rule="R03.6"):
    """Every script a session is going to execute has passed the well-formedness test (CScript::HasValidOps, directly or through
    parse_script) before set-up accepts: the listing, the marker and the two-column display all decode the scripts with GetOp and
    stop silently at an undecodable tail."""
    cf, ok, npaths = setup_outcomes(fb, prog)
    ctx.site(len(ok))
    bad = []
    for o in ok:
        sv = sigver_of(o)
        validated = [t for (t, v) in o.conds if v and isinstance(t, tuple) and t[0] == "ap" and t[1] in ("m:HasValidOps", "m:parse_script")]
        if sv == 0:
            # legacy: both the scriptSig and the scriptPubKey are executed
            need = {"scriptSig", "scriptPubKey"}
            have = set()
            for t in validated:
                for nm in need:
                    if has_sub(t, lambda y, nm=nm: is_field(y, nm)):
                        have.add(nm)
            if need - have:
                bad.append((sv, sorted(need - have)))
        elif not validated:
            bad.append((sv, ["the witness script"]))
    ctx.inst(not bad, rule, "scripts-validated-before-the-session", cf.loc(),
             "on all %d accepting paths the scripts to be executed passed HasValidOps" % len(ok),
             "set-up accepts (script version %s) without testing %s with HasValidOps: a truncated push in a legacy scriptSig is dropped from the listing, the marker points at the next section "
             "and every step fails on bytes that are not shown" % ((bad[0][0], " and ".join(bad[0][1])) if bad else ("", "")))
