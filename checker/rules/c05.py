"""C05 - the step-by-step taproot commitment check equals the BIP341 rule: sibling cross-check against the batch twin
(ComputeTapleafHash / ComputeTaprootMerkleRoot / VerifyTaprootCommitment) kept in the tree (DESIGN.md section 4, C05)."""
import os
import json
from .. import astq, structure as S, streams
from ..facts import AnalysisBroken, walk, VERIF

EXPLANATION = (
    "Sibling cross-check: normalised facts are extracted from the step-wise implementation (TaprootCommitmentEnv constructor and "
    "Iterate) and from the batch twin Bitcoin Core ships, and must be equal: tagged hashers (globals initialised from "
    "TaggedHash(\"TapLeaf\"/\"TapBranch\"/\"TapTweak\")), the leaf stream (control[0] & TAPROOT_LEAF_MASK as one byte, then the script), "
    "the node slice (bytes [BASE + NODE*i, +NODE) of the control block; a byte-slice normaliser equates subspan(off,len), "
    "(data()+off, len) and vector(begin()+a, begin()+b) and evaluates the offset as a linear form in i), the ordering predicate "
    "(lexicographic k < node => stream (k,node) else (node,k)), the path length (size-BASE)/NODE, the internal key = bytes [1,33), "
    "output key = program, and the final check CheckTapTweak(p, k, control[0] & 1). R05.2 the control-size predicate used at "
    "session set-up equals the one in VerifyWitnessProgram and the size constants are BIP341's. R05.3 the leaf hash exported through "
    "the tapleaf-hash pointer at construction is what the Done transition copies into the signing data; Failed does not advance. "
    "R05.4 CheckTapTweak hands all of its inputs (including the parity) to libsecp256k1's tweak_add_check. SHA-256 / secp256k1 "
    "correctness is not decided.")
TRUSTED = ["clang 14 parser/Sema/constant evaluator", "/verif extractor", "the batch twin as transcription of BIP341 (cross-checked against spec constants)"]
ASSUMPTIONS = ["libsecp256k1 and SHA-256 are correct"]
DECLINED = ["SHA-256 / secp256k1 correctness", "displayed intermediate values beyond being the hashed quantities"]

RENAME = {"m_control": "control", "m_k": "k", "m_p": "p", "m_q": "q", "m_i": "i", "m_path_len": "path_len", "m_script": "script", "m_program": "program"}


def norm(txt):
    for a, b in RENAME.items():
        txt = txt.replace(a, b)
    return txt.replace("this->", "").replace("(uint8_t)", "").replace("(unsigned char)", "")


def lin(e, var):
    """(c0, c1) with e == c0 + c1*var, constants taken from the compiler's evaluation; None if not linear"""
    if e is None:
        return None
    cv = astq.const_value(e)
    if cv is not None:
        return (cv, 0)
    k = e.get("k")
    if k in ("ref", "mem") and norm(e["n"]) == var:
        return (0, 1)
    if k == "cast":
        return lin(e["e"], var)
    if k == "bin" and e["op"] in ("+", "-", "*"):
        a, b = lin(e["lhs"], var), lin(e["rhs"], var)
        if a is None or b is None:
            return None
        if e["op"] == "+":
            return (a[0] + b[0], a[1] + b[1])
        if e["op"] == "-":
            return (a[0] - b[0], a[1] - b[1])
        if a[1] == 0:
            return (a[0] * b[0], a[0] * b[1])
        if b[1] == 0:
            return (a[0] * b[0], a[1] * b[0])
    return None


def byte_slice(e, var="i"):
    """(container, offset linear form, length) of a byte-range expression"""
    x = e
    while x is not None and (x.get("k") in ("cast",) or (x.get("k") == "initlist" and len(x.get("ch", [])) == 1)):
        x = x["e"] if x.get("k") == "cast" else x["ch"][0]
    if x is None:
        return None
    if x.get("k") == "ctor":
        args = [a for a in x["args"] if a is not None and a.get("k") != "defarg"]
        ty = x.get("ty", "")
        if len(args) == 1:
            return byte_slice(args[0], var)
        if len(args) == 2:
            a0, a1 = args
            # Span(ptr + off, len)
            if ty.startswith("Span") or "Span" in (x.get("ct") or ""):
                base, off = ptr_off(a0, var)
                ln = lin(a1, var)
                if base and off is not None and ln is not None:
                    return (base, off, ln[0])
            # vector(begin()+a, begin()+b)
            b0, o0 = ptr_off(a0, var)
            b1, o1 = ptr_off(a1, var)
            if b0 and b0 == b1 and o0 is not None and o1 is not None and o0[1] == o1[1] == 0:
                return (b0, o0, o1[0] - o0[0])
    if x.get("k") == "mcall" and x.get("n") == "subspan":
        inner = x.get("obj")
        cont = None
        for y in walk(inner):
            if y["k"] in ("ref", "mem"):
                cont = norm(y["n"])
                break
        off = lin(x["args"][0], var)
        ln = lin(x["args"][1], var) if len(x["args"]) > 1 else None
        if cont and off is not None and ln is not None:
            return (cont, off, ln[0])
    if x.get("k") in ("ref", "mem"):
        return (norm(x["n"]), (0, 0), None)
    return None


def ptr_off(e, var):
    """pointer/iterator expression  C.data() + off / C.begin() + off  -> (C, linear off)"""
    x = e
    while x is not None and x.get("k") == "cast":
        x = x["e"]
    if x is None:
        return None, None
    if x.get("k") in ("bin", "opcall") and x.get("op") == "+":
        a, b = (x["lhs"], x["rhs"]) if x["k"] == "bin" else (x["args"][0], x["args"][1])
        base, off = ptr_off(a, var)
        add = lin(b, var)
        if base and off is not None and add is not None:
            return base, (off[0] + add[0], off[1] + add[1])
        return None, None
    if x.get("k") == "mcall" and x.get("n") in ("data", "begin") and x.get("obj") is not None:
        for y in walk(x["obj"]):
            if y["k"] in ("ref", "mem"):
                return norm(y["n"]), (0, 0)
    return None, None


def stream_chain_ops(expr):
    """operands of a `(HashWriter(H) << a << b)` chain, with the hasher global it was copied from"""
    for n in walk(expr):
        if n["k"] in ("opcall",) and n.get("op") == "<<":
            base, ops = streams.flatten_chain(n)
            h = None
            for y in walk(base):
                if y["k"] == "ref" and y.get("dk") == "global" and y["n"].startswith("HASHER_"):
                    h = y["n"]
            if h:
                return h, [norm(astq.estr(o[1])) for o in ops]
    return None, []


def branch_facts(func):
    """facts of the TapBranch fold inside func"""
    out = {}
    for n in func.nodes():
        if n["k"] == "if" and n["cond"].get("k") == "call" and n["cond"].get("n") == "lexicographical_compare":
            out["cmp"] = [norm(astq.estr(a)) for a in n["cond"]["args"]]
            for arm, key in ((n["then"], "then"), (n.get("else"), "else")):
                seq = []
                for m in walk(arm):
                    if m["k"] == "opcall" and m.get("op") == "<<":
                        base, ops = streams.flatten_chain(m)
                        if base is not None and base.get("k") == "ref" and "branch" in base["n"]:
                            seq = [norm(astq.estr(o[1])) for o in ops]
                            break
                out[key] = seq
            out["node"] = n
    # hasher initialisation of ss_branch and definition of node
    for n in func.nodes():
        if n["k"] == "decl":
            for d in n["decls"]:
                if "branch" in d["n"] and d.get("init") is not None:
                    hs = [y["n"] for y in walk(d["init"]) if y["k"] == "ref" and y.get("dk") == "global"]
                    out["hasher"] = hs[0] if hs else None
                if d["n"] == "node" and d.get("init") is not None:
                    out["slice"] = byte_slice(d["init"])
                if norm(d["n"]) == "path_len" and d.get("init") is not None:
                    out["path_len"] = norm(astq.estr(d["init"]))
    for n in func.nodes():
        if n["k"] == "assign" and norm(astq.estr(n["lhs"])) == "path_len":
            out["path_len"] = norm(astq.estr(n["rhs"]))
        if n["k"] == "opcall" and n["op"] == "=" and norm(astq.estr(n["args"][0])) == "k" and "GetSHA256" in astq.estr(n["args"][1]) and "branch" in astq.estr(n["args"][1]):
            out["k_update"] = True
    return out


def run(ctx, anchors=None):
    fb, prog = ctx.facts, ctx.prog
    ctx.rule("R05.1", "step-wise commitment == batch twin (hashers, leaf stream, node slice, ordering, path length, keys, final check)")
    ctx.rule("R05.2", "control-size predicate at set-up == VerifyWitnessProgram's; BIP341 size constants")
    ctx.rule("R05.3", "the exported leaf hash is the one copied into the signing data; Failed does not advance")
    ctx.rule("R05.4", "CheckTapTweak passes every input (incl. parity) to secp256k1_xonly_pubkey_tweak_add_check")
    ctor = fb.fn("TaprootCommitmentEnv::TaprootCommitmentEnv")
    it = fb.fn("TaprootCommitmentEnv::Iterate")
    leaf_twin = fb.fn("ComputeTapleafHash")
    root_twin = fb.fn("ComputeTaprootMerkleRoot")
    ver_twin = [f for f in fb.fns("VerifyTaprootCommitment") if len(f.params) == 3]
    if not ver_twin:
        raise AnalysisBroken("batch twin VerifyTaprootCommitment(control, program, tapleaf_hash) not found")
    ver_twin = ver_twin[0]

    from . import common as _cm
    _cm.require_names(ctor, ["m_k", "m_p", "m_q", "control", "program", "script", "m_tapleaf_hash"], "R05.1")
    _cm.require_names(it, ["m_k", "m_i", "m_path_len", "m_control", "node", "res", "m_q", "m_p"], "R05.1")
    _cm.require_names(root_twin, ["k", "node", "control", "path_len", "i"], "R05.1")
    _cm.require_names(ver_twin, ["p", "q", "control", "program", "merkle_root"], "R05.1")
    # ---- tagged hashers
    tags = {"HASHER_TAPLEAF": "TapLeaf", "HASHER_TAPBRANCH": "TapBranch", "HASHER_TAPTWEAK": "TapTweak", "HASHER_TAPSIGHASH": "TapSighash"}
    for name, tag in sorted(tags.items()):
        vs = fb.vars_by_name.get(name, [])
        ctx.site()
        if not vs:
            ctx.fail("R05.1", "tag=" + name, "script/interpreter.cpp:0", "%s is not defined" % name)
            continue
        for v in vs:
            lits = [x["s"] for x in walk(v["init"]) if x["k"] == "str"] if v.get("init") else []
            ctx.inst(lits == [tag], "R05.1", "tag=%s@%s" % (name, v["file"]), "%s:%d" % (v["file"], v["line"]), "%s = TaggedHash(\"%s\")" % (name, tag),
                     "%s is initialised from %s; BIP341 uses the tag \"%s\"" % (name, lits, tag))
    # ---- leaf stream
    h_s, ops_s = None, []
    for n in ctor.nodes():
        if n["k"] == "opcall" and n["op"] == "=" and norm(astq.estr(n["args"][0])) == "k":
            h_s, ops_s = stream_chain_ops(n["args"][1])
    h_t, ops_t = stream_chain_ops(leaf_twin.body)
    # substitute the twin's parameters by the arguments of its call in VerifyWitnessProgram
    calls = [(f, n) for f in fb.funcs.values() for n in f.nodes() if n["k"] == "call" and n.get("cid") == leaf_twin.id]
    sub = {}
    if calls:
        f, n = calls[0]
        for p, a in zip(leaf_twin.params, n["args"]):
            sub[p["n"]] = norm(astq.estr(a))
    ops_t2 = [sub.get(o, o) for o in ops_t]
    ops_t2 = [("script" if o in ("exec_script",) else o) for o in ops_t2]
    ctx.site(2)
    ctx.inst(h_s == h_t == "HASHER_TAPLEAF" and ops_s == ops_t2 and len(ops_s) == 2, "R05.1", "leaf-stream", ctor.loc(),
             "leaf hash = %s over %s (twin: %s)" % (h_s, ops_s, ops_t2),
             "step-wise leaf hash streams %s into %s; the batch twin streams %s into %s" % (ops_s, h_s, ops_t2, h_t))
    want_leaf = ["(control[0] & TAPROOT_LEAF_MASK)", "script"]
    ctx.inst(ops_t2 == want_leaf, "R05.1", "leaf-stream-spec", leaf_twin.loc(), "twin leaf stream is (leaf version byte, script) as in BIP341")
    # ---- branch fold
    fs, ft = branch_facts(it), branch_facts(root_twin)
    # path_len of the step-wise side is set in the constructor
    fs.update({k: v for k, v in branch_facts(ctor).items() if k == "path_len"})
    for key, what in (("hasher", "branch hasher"), ("cmp", "ordering predicate operands"), ("then", "operands streamed when k < node"), ("else", "operands streamed otherwise"),
                      ("slice", "control-block slice of path node i"), ("path_len", "path length"), ("k_update", "k := hash of the branch")):
        ctx.site()
        a, b = fs.get(key), ft.get(key)
        ctx.inst(a is not None and a == b, "R05.1", "fold:" + key, it.loc(fs["node"]) if "node" in fs else it.loc(), "%s: %s" % (what, a),
                 "%s differs: step-wise %s, batch twin %s" % (what, a, b))
    spec = {"cmp": ["k.begin()", "k.end()", "node.begin()", "node.end()"], "then": ["k", "node"], "else": ["node", "k"], "slice": ("control", (33, 32), 32)}
    for key, want in spec.items():
        ctx.inst(ft.get(key) == want, "R05.1", "fold-spec:" + key, root_twin.loc(), "twin %s == BIP341 (%s)" % (key, want), "batch twin %s is %s, BIP341 says %s" % (key, ft.get(key), want))
    # ---- keys and final check
    def key_slices(func):
        out = {}
        roots = func.all_roots()
        for r in roots:
            for n in walk(r):
                pass
        # constructor initialisers (step) / local declarations (twin)
        for ini in func.d.get("inits", []):
            if ini.get("field") in ("m_p", "m_q") and ini.get("e") is not None:
                out[norm(ini["field"])] = byte_slice(first_sized_arg(ini["e"]))
        for n in func.nodes():
            if n["k"] == "decl":
                for d in n["decls"]:
                    if d["n"] in ("p", "q") and d.get("init") is not None:
                        out[d["n"]] = byte_slice(first_sized_arg(d["init"]))
        return out
    ks, kt = key_slices(ctor), key_slices(ver_twin)
    for k in ("p", "q"):
        ctx.site()
        a, b = ks.get(k), kt.get(k)
        # the output key is the whole program: offset 0, length unspecified
        ctx.inst(a is not None and b is not None and a[0] == b[0] and a[1] == b[1] and (a[2] == b[2] or k == "q"), "R05.1", "key:" + k, ctor.loc(),
                 "%s = bytes %s of %s" % (k, a[1:] if a else None, a[0] if a else None), "key %s: step-wise takes %s, batch twin takes %s" % (k, a, b))
    ctx.inst(kt.get("p") == ("control", (1, 0), 32), "R05.1", "key-spec:p", ver_twin.loc(), "internal key = control[1..33)")

    def final_check(func):
        for n in func.nodes():
            if n["k"] == "mcall" and n.get("n") == "CheckTapTweak":
                return [norm(astq.estr(n.get("obj")))] + [norm(astq.estr(a)) for a in n["args"]]
        return None
    cs, ct = final_check(it), final_check(ver_twin)
    if ct:
        ct = [("k" if x == "merkle_root" else x) for x in ct]
    ctx.site()
    ctx.inst(cs is not None and cs == ct, "R05.1", "final-check", it.loc(), "final check: %s.CheckTapTweak(%s)" % (cs[0] if cs else "?", ", ".join(cs[1:]) if cs else ""),
             "final check differs: step-wise %s, batch twin %s" % (cs, ct))
    ctx.inst(ct == ["q", "p", "k", "(control[0] & 1)"], "R05.1", "final-check-spec", ver_twin.loc(), "twin: q.CheckTapTweak(p, merkle_root, control[0] & 1)")
    # the result decides Done / Failed
    rets = [n for n in it.nodes() if n["k"] == "return" and n.get("e") is not None and n["e"].get("k") == "cond"]
    ok_ret = any(astq.estr(r["e"]["then"]).endswith("Done") and astq.estr(r["e"]["else"]).endswith("Failed") and astq.estr(r["e"]["cond"]) == "res" for r in rets)
    ctx.inst(ok_ret, "R05.1", "result-decides-state", it.loc(), "Iterate returns Done iff the tweak check succeeded, Failed otherwise")

    # ---- R05.2
    cons = {"TAPROOT_CONTROL_BASE_SIZE": 33, "TAPROOT_CONTROL_NODE_SIZE": 32, "TAPROOT_CONTROL_MAX_NODE_COUNT": 128, "TAPROOT_CONTROL_MAX_SIZE": 33 + 32 * 128,
            "TAPROOT_LEAF_MASK": 0xfe, "TAPROOT_LEAF_TAPSCRIPT": 0xc0, "WITNESS_V1_TAPROOT_SIZE": 32, "ANNEX_TAG": 0x50}
    for name, val in sorted(cons.items()):
        v = fb.var(name)
        ctx.site()
        ctx.inst(v.get("value") == val, "R05.2", "const=" + name, "%s:%d" % (v["file"], v["line"]), "%s == %d" % (name, val), "%s is %s, BIP341 says %d" % (name, v.get("value"), val))
    cfgf = fb.fn("Instance::configure_tx_txin")
    vwp = fb.fn("VerifyWitnessProgram")

    def size_pred(func):
        for n in func.nodes():
            if n["k"] == "if":
                dj = S.disjuncts(n["cond"])
                if len(dj) == 3 and all("control.size()" in astq.estr(d) for d in dj):
                    return sorted(astq.estr(d) for d in dj)
        return None
    pa, pb = size_pred(cfgf), size_pred(vwp)
    ctx.site()
    ctx.inst(pa is not None and pa == pb, "R05.2", "control-size-predicate", cfgf.loc(), "set-up rejects control sizes with the same three disjuncts as VerifyWitnessProgram",
             "control-size predicate at set-up %s differs from VerifyWitnessProgram's %s" % (pa, pb))
    # the TaprootCommitmentEnv is constructed only after that predicate rejected bad sizes
    news = [n for n in cfgf.nodes() if n["k"] == "new" and "TaprootCommitmentEnv" in n.get("ty", "")]
    ccfg = cfgf.cfg()
    sz_if = [n for n in cfgf.nodes() if n["k"] == "if" and size_pred_is(n)]
    ctx.inst(bool(news) and bool(sz_if) and all(ccfg.dominates(sz_if[0]["cond"], n) for n in news), "R05.2", "size-check-before-construction", cfgf.loc(news[0]) if news else cfgf.loc(),
             "the commitment environment is constructed only after the control-size check")
    # ---- R05.3
    stepper = fb.fn("StepScript", file="debugger/interpreter.cpp")
    exports = [n for n in ctor.nodes() if n["k"] == "opcall" and n["op"] == "=" and astq.estr(n["args"][0]).replace("this->", "") in ("*m_tapleaf_hash",)]
    leaf_asg = [n for n in ctor.nodes() if n["k"] == "opcall" and n["op"] == "=" and norm(astq.estr(n["args"][0])) == "k"]
    ccf = ctor.cfg()
    ok_exp = len(exports) == 1 and len(leaf_asg) == 1 and norm(astq.estr(exports[0]["args"][1])) == "k" and ccf.dominates(leaf_asg[0], exports[0])
    ctx.site()
    ctx.inst(ok_exp, "R05.3", "leaf-hash-exported-at-construction", ctor.loc(exports[0]) if exports else ctor.loc(),
             "the constructor exports k through m_tapleaf_hash right after computing the leaf hash (before any branch is folded)")
    sw = [s_ for s_ in S.find_switches(stepper) if "Iterate" in astq.estr(s_["cond"])]
    done_ok = failed_ok = False
    src = None
    if sw:
        for g in S.case_groups(sw[0]):
            names = g.short_names()
            if "Done" in names:
                for n in g.nodes():
                    if n["k"] == "opcall" and n["op"] == "=" and astq.estr(n["args"][0]).endswith("execdata.m_tapleaf_hash"):
                        src = astq.estr(n["args"][1])
                        done_ok = src.replace(" ", "") in ("*env.tce->m_tapleaf_hash",)
            if "Failed" in names:
                rets_ = [n for n in g.nodes() if n["k"] == "return"]
                failed_ok = len(rets_) == 1 and astq.const_value(rets_[0].get("e")) == 0 and not any(n["k"] == "un" and n["op"] == "++" for n in g.nodes())
    ctx.site(2)
    ctx.inst(done_ok, "R05.3", "signed-leaf-hash-is-derived-leaf-hash", stepper.loc(), "Done copies *tce->m_tapleaf_hash (the exported leaf hash) into execdata.m_tapleaf_hash",
             "the Done transition copies `%s` into the signing data; the leaf hash is *tce->m_tapleaf_hash (m_k has been folded with the path and is the Merkle root by then)" % src)
    ctx.inst(failed_ok, "R05.3", "failed-does-not-advance", stepper.loc(), "a failed commitment check fails the step without advancing")
    # ---- R05.4
    ctt = fb.fn("XOnlyPubKey::CheckTapTweak")
    call = [n for n in ctt.nodes() if n["k"] == "call" and n.get("n") == "secp256k1_xonly_pubkey_tweak_add_check"]
    used = {p["n"]: any(x["k"] == "ref" and x.get("d") == p["d"] for n in call for x in walk(n)) or
            any(x["k"] == "ref" and x.get("d") == p["d"] for x in ctt.nodes() if x["k"] == "ref") for p in ctt.params}
    in_call = {p["n"]: any(x["k"] == "ref" and x.get("d") == p["d"] for n in call for x in walk(n)) for p in ctt.params}
    ctx.site()
    ctx.inst(len(call) == 1 and in_call.get("parity") and all(used.values()), "R05.4", "tweak-check-uses-all-inputs", ctt.loc(),
             "CheckTapTweak calls secp256k1_xonly_pubkey_tweak_add_check with the parity and uses every parameter",
             "CheckTapTweak %s: a control block with the wrong parity bit is accepted" % ("does not call secp256k1_xonly_pubkey_tweak_add_check" if not call else "does not pass `parity` to the libsecp check"))
    rets = [n for n in ctt.nodes() if n["k"] == "return"]
    ctx.inst(bool(call) and any(S.contains(r, call[0]) for r in rets), "R05.4", "tweak-check-result-returned", ctt.loc(), "the libsecp verdict is the return value")


def first_sized_arg(e):
    """descend through XOnlyPubKey{...} / uint256(...) wrappers to the byte-range expression"""
    x = e
    for _ in range(6):
        if x is None:
            return None
        if x.get("k") == "initlist" and x.get("ch"):
            x = x["ch"][0]
            continue
        if x.get("k") == "ctor":
            ty = x.get("ty", "")
            args = [a for a in x["args"] if a is not None and a.get("k") != "defarg"]
            if ("XOnlyPubKey" in ty or "uint256" in ty or x.get("copy")) and len(args) == 1:
                x = args[0]
                continue
        if x.get("k") == "cast":
            x = x["e"]
            continue
        break
    return x


def size_pred_is(n):
    dj = S.disjuncts(n["cond"])
    return len(dj) == 3 and all("control.size()" in astq.estr(d) for d in dj)


MUTANTS = [
    dict(name="step-swaps-branch-operands", file="debugger/interpreter.cpp", find="            ss_branch << m_k << node;", replace="            ss_branch << node << m_k;", expect=["R05.1:fold:then"]),
    dict(name="step-node-offset-off-by-one", file="debugger/interpreter.cpp", find="Span<const unsigned char> node(m_control.data() + TAPROOT_CONTROL_BASE_SIZE + TAPROOT_CONTROL_NODE_SIZE * m_i, TAPROOT_CONTROL_NODE_SIZE);",
         replace="Span<const unsigned char> node(m_control.data() + TAPROOT_CONTROL_BASE_SIZE - 1 + TAPROOT_CONTROL_NODE_SIZE * m_i, TAPROOT_CONTROL_NODE_SIZE);", expect=["R05.1:fold:slice"]),
    dict(name="step-parity-negated", file="debugger/interpreter.cpp", find="bool res = m_q.CheckTapTweak(m_p, m_k, m_control[0] & 1);", replace="bool res = m_q.CheckTapTweak(m_p, m_k, !(m_control[0] & 1));", expect=["R05.1:final-check"]),
    dict(name="step-leaf-mask-dropped", file="debugger/interpreter.cpp", find="m_k = (HashWriter(HASHER_TAPLEAF) << uint8_t(control[0] & TAPROOT_LEAF_MASK) << script).GetSHA256();", replace="m_k = (HashWriter(HASHER_TAPLEAF) << uint8_t(control[0]) << script).GetSHA256();", expect=["R05.1:leaf-stream"]),
    dict(name="step-wrong-hasher", file="debugger/interpreter.cpp", find="        HashWriter ss_branch = HASHER_TAPBRANCH;", replace="        HashWriter ss_branch = HASHER_TAPLEAF;", expect=["R05.1:fold:hasher"]),
    dict(name="tag-typo", file="script/interpreter.cpp", find="TaggedHash(\"TapBranch\")", replace="TaggedHash(\"TapBranche\")", expect=["R05.1:tag=HASHER_TAPBRANCH"]),
    dict(name="done-copies-root", file="debugger/interpreter.cpp", find="env.execdata.m_tapleaf_hash = *env.tce->m_tapleaf_hash;", replace="env.execdata.m_tapleaf_hash = env.tce->m_k;", expect=["R05.3:signed-leaf-hash-is-derived-leaf-hash"]),
    dict(name="parity-ignored", file="pubkey.cpp", find="    return secp256k1_xonly_pubkey_tweak_add_check(secp256k1_context_verify, m_keydata.begin(), parity, &internal_key, tweak.begin());",
         replace="    auto ret = internal.CreateTapTweak(&merkle_root);\n    return ret && ret->first == *this;", expect=["R05.4:tweak-check-uses-all-inputs"]),
    dict(name="control-size-predicate-relaxed", file="instance.cpp", find="control.size() > TAPROOT_CONTROL_MAX_SIZE || ((control.size()", replace="control.size() > TAPROOT_CONTROL_MAX_SIZE + 32 || ((control.size()", expect=["R05.2:control-size-predicate"]),
    dict(name="internal-key-offset", file="debugger/interpreter.cpp", find="m_p{uint256(std::vector<unsigned char>(control.begin() + 1, control.begin() + TAPROOT_CONTROL_BASE_SIZE))}", replace="m_p{uint256(std::vector<unsigned char>(control.begin(), control.begin() + TAPROOT_CONTROL_BASE_SIZE - 1))}", expect=["R05.1:key:p"]),
    dict(name="failed-advances", file="debugger/interpreter.cpp", find="        case TaprootCommitmentEnv::State::Failed:\n            return false;", replace="        case TaprootCommitmentEnv::State::Failed:\n            ++env.curr_op_seq;\n            return false;", expect=["R05.3:failed-does-not-advance"]),
]
