"""C05 - the step-by-step taproot commitment check equals the BIP341 rule: sibling cross-check against the batch twin
(ComputeTapleafHash / ComputeTaprootMerkleRoot / VerifyTaprootCommitment) kept in the tree (DESIGN.md section 4, C05)."""
import os
import json
from .. import astq, structure as S, streams
from ..facts import AnalysisBroken, walk, VERIF

EXPLANATION = (
    "Sibling cross-check: normalised facts are extracted from the step-wise implementation (TaprootCommitmentEnv constructor and "
    "Iterate) and from the batch twin Bitcoin Core ships, and must be equal: tagged hashers (globals initialised from "
    "TaggedHash(\"TapLeaf\"/\"TapBranch\"/\"TapTweak\")), the leaf stream (control[0] & TAPROOT_LEAF_MASK as one byte, then the script), "
    "the node slice (bytes [BASE + NODE*i, +NODE) of the control block; a byte-slice normaliser equates subspan(off,len), "
    "(data()+off, len) and vector(begin()+a, begin()+b) and evaluates the offset as a linear form in i), the ordering predicate "
    "(lexicographic k < node => stream (k,node) else (node,k)), the path length (size-BASE)/NODE, the internal key = bytes [1,33), "
    "output key = program, and the final check CheckTapTweak(p, k, control[0] & 1). R05.2 the control-size predicate used at "
    "session set-up equals the one in VerifyWitnessProgram and the size constants are BIP341's. R05.3 the leaf hash exported through "
    "the tapleaf-hash pointer at construction is what the Done transition copies into the signing data; Failed does not advance. "
    "R05.4 CheckTapTweak hands all of its inputs (including the parity) to libsecp256k1's tweak_add_check. SHA-256 / secp256k1 "
    "correctness is not decided.")
TRUSTED = ["clang 14 parser/Sema/constant evaluator", "/verif extractor", "/verif term evaluator G-SYM (checker/symx.py): inlining, loop summaries relative to prev, linear normal form; casts between integer types are treated as value-preserving", "the batch twin as transcription of BIP341 (cross-checked against spec constants)"]
ASSUMPTIONS = ["libsecp256k1 and SHA-256 are correct"]
DECLINED = ["SHA-256 / secp256k1 correctness", "displayed intermediate values beyond being the hashed quantities"]

RENAME = {"m_control": "control", "m_k": "k", "m_p": "p", "m_q": "q", "m_i": "i", "m_path_len": "path_len", "m_script": "script", "m_program": "program"}


def norm(txt):
    for a, b in RENAME.items():
        txt = txt.replace(a, b)
    return txt.replace("this->", "").replace("(uint8_t)", "").replace("(unsigned char)", "")


def lin(e, var):
    """(c0, c1) with e == c0 + c1*var, constants taken from the compiler's evaluation; None if not linear"""
    if e is None:
        return None
    cv = astq.const_value(e)
    if cv is not None:
        return (cv, 0)
    k = e.get("k")
    if k in ("ref", "mem") and norm(e["n"]) == var:
        return (0, 1)
    if k == "cast":
        return lin(e["e"], var)
    if k == "bin" and e["op"] in ("+", "-", "*"):
        a, b = lin(e["lhs"], var), lin(e["rhs"], var)
        if a is None or b is None:
            return None
        if e["op"] == "+":
            return (a[0] + b[0], a[1] + b[1])
        if e["op"] == "-":
            return (a[0] - b[0], a[1] - b[1])
        if a[1] == 0:
            return (a[0] * b[0], a[0] * b[1])
        if b[1] == 0:
            return (a[0] * b[0], a[1] * b[0])
    return None


def byte_slice(e, var="i"):
    """(container, offset linear form, length) of a byte-range expression"""
    x = e
    while x is not None and (x.get("k") in ("cast",) or (x.get("k") == "initlist" and len(x.get("ch", [])) == 1)):
        x = x["e"] if x.get("k") == "cast" else x["ch"][0]
    if x is None:
        return None
    if x.get("k") == "ctor":
        args = [a for a in x["args"] if a is not None and a.get("k") != "defarg"]
        ty = x.get("ty", "")
        if len(args) == 1:
            return byte_slice(args[0], var)
        if len(args) == 2:
            a0, a1 = args
            # Span(ptr + off, len)
            if ty.startswith("Span") or "Span" in (x.get("ct") or ""):
                base, off = ptr_off(a0, var)
                ln = lin(a1, var)
                if base and off is not None and ln is not None:
                    return (base, off, ln[0])
            # vector(begin()+a, begin()+b)
            b0, o0 = ptr_off(a0, var)
            b1, o1 = ptr_off(a1, var)
            if b0 and b0 == b1 and o0 is not None and o1 is not None and o0[1] == o1[1] == 0:
                return (b0, o0, o1[0] - o0[0])
    if x.get("k") == "mcall" and x.get("n") == "subspan":
        inner = x.get("obj")
        cont = None
        for y in walk(inner):
            if y["k"] in ("ref", "mem"):
                cont = norm(y["n"])
                break
        off = lin(x["args"][0], var)
        ln = lin(x["args"][1], var) if len(x["args"]) > 1 else None
        if cont and off is not None and ln is not None:
            return (cont, off, ln[0])
    if x.get("k") in ("ref", "mem"):
        return (norm(x["n"]), (0, 0), None)
    return None


def ptr_off(e, var):
    """pointer/iterator expression  C.data() + off / C.begin() + off  -> (C, linear off)"""
    x = e
    while x is not None and x.get("k") == "cast":
        x = x["e"]
    if x is None:
        return None, None
    if x.get("k") in ("bin", "opcall") and x.get("op") == "+":
        a, b = (x["lhs"], x["rhs"]) if x["k"] == "bin" else (x["args"][0], x["args"][1])
        base, off = ptr_off(a, var)
        add = lin(b, var)
        if base and off is not None and add is not None:
            return base, (off[0] + add[0], off[1] + add[1])
        return None, None
    if x.get("k") == "mcall" and x.get("n") in ("data", "begin") and x.get("obj") is not None:
        for y in walk(x["obj"]):
            if y["k"] in ("ref", "mem"):
                return norm(y["n"]), (0, 0)
    return None, None


def run(ctx, anchors=None):
    fb, prog = ctx.facts, ctx.prog
    ctx.rule("R05.1", "step-wise commitment == batch twin (hashers, leaf stream, node slice, ordering, path length, keys, final check)")
    ctx.rule("R05.2", "control-size predicate at set-up == VerifyWitnessProgram's; BIP341 size constants")
    ctx.rule("R05.3", "the exported leaf hash is the one copied into the signing data; Failed does not advance")
    ctx.rule("R05.4", "CheckTapTweak passes every input (incl. parity) to secp256k1_xonly_pubkey_tweak_add_check")
    ctor = fb.fn("TaprootCommitmentEnv::TaprootCommitmentEnv")
    it = fb.fn("TaprootCommitmentEnv::Iterate")
    leaf_twin = fb.fn("ComputeTapleafHash")
    root_twin = fb.fn("ComputeTaprootMerkleRoot")
    ver_twin = [f for f in fb.fns("VerifyTaprootCommitment") if len(f.params) == 3]
    if not ver_twin:
        raise AnalysisBroken("batch twin VerifyTaprootCommitment(control, program, tapleaf_hash) not found")
    ver_twin = ver_twin[0]

    from . import common as _cm
    # ---- tagged hashers
    tags = {"HASHER_TAPLEAF": "TapLeaf", "HASHER_TAPBRANCH": "TapBranch", "HASHER_TAPTWEAK": "TapTweak", "HASHER_TAPSIGHASH": "TapSighash"}
    for name, tag in sorted(tags.items()):
        vs = fb.vars_by_name.get(name, [])
        ctx.site()
        if not vs:
            ctx.fail("R05.1", "tag=" + name, "script/interpreter.cpp:0", "%s is not defined" % name)
            continue
        for v in vs:
            lits = [x["s"] for x in walk(v["init"]) if x["k"] == "str"] if v.get("init") else []
            ctx.inst(lits == [tag], "R05.1", "tag=%s@%s" % (name, v["file"]), "%s:%d" % (v["file"], v["line"]), "%s = TaggedHash(\"%s\")" % (name, tag),
                     "%s is initialised from %s; BIP341 uses the tag \"%s\"" % (name, lits, tag))
    # ---- R05.1 on terms (G-SYM): both implementations are mapped to Herbrand terms over the same atoms (parameters bound by
    # position, session fields by their record names) and byte ranges are brought to slice(container, offset, length)
    from .. import symx
    from ..symx import C
    need = ["m_control", "m_program", "m_script", "m_tapleaf_hash", "m_p", "m_q", "m_path_len", "m_k", "m_i"]
    have = set(fb.record_fields("TaprootCommitmentEnv"))
    if [x for x in need if x not in have]:
        raise AnalysisBroken("R05.1: anchor name(s) %s not found in TaprootCommitmentEnv - renamed or restructured; update the anchor table" % [x for x in need if x not in have])
    X = symx.Explorer(prog, inline=lambda fn, n: False, transparent=lambda n: True)
    this = ("a", "this")
    CONTROL, PROGRAM, SCRIPT, TLH, K, I_ = ("a", "control"), ("a", "program"), ("a", "script"), ("a", "tapleaf_hash"), ("a", "k"), ("a", "i")

    def nslice(t):
        """bottom-up: subspan / Span(data()+off, len) / vector(begin()+a, begin()+b) -> slice(container, offset, length)"""
        if not isinstance(t, tuple):
            return t
        t = tuple(nslice(x) for x in t)
        if t[0] == "ap" and t[1] == "{}" and len(t) == 3:
            return t[2]
        if t[0] == "ap" and t[1] == "m:subspan" and len(t) == 5:
            base = t[2]
            if isinstance(base, tuple) and base[0] == "slice":
                return ("slice", base[1], symx.lin_add(base[2], t[3]), t[4])
            return ("slice", base, t[3], t[4])
        if t[0] == "ap" and t[1].startswith("ctor:") and len(t) == 4:
            def split(x, acc):
                c, d = symx.lin_parts(x)
                hit = [k for k in d if isinstance(k, tuple) and k[0] == "ap" and k[1] == acc and len(k) == 3 and d[k] == 1]
                if len(hit) != 1:
                    return None, None
                d = dict(d)
                del d[hit[0]]
                return hit[0][2], symx.mk_lin(c, d)
            c0, off0 = split(t[2], "m:data")
            if c0 is not None and "Span" in t[1]:
                return ("slice", c0, off0, t[3])
            b0, o0 = split(t[2], "m:begin")
            b1, o1 = split(t[3], "m:begin")
            if b0 is not None and b0 == b1:
                return ("slice", b0, o0, symx.lin_add(o1, o0, -1))
        return t

    def explore(func, **kw):
        try:
            return X.explore(func, **kw)
        except symx.Unsupported as e:
            raise AnalysisBroken("R05.1: %s: %s" % (func.name, e))

    def pbind(func, atoms):
        if len(func.params) != len(atoms):
            raise AnalysisBroken("R05.1: %s takes %d parameters, the rule was written for %d" % (func.name, len(func.params), len(atoms)))
        return {p["n"]: a for p, a in zip(func.params, atoms)}

    def lt_of(t):
        if isinstance(t, tuple) and t[0] == "ap" and t[1] == "lexicographical_compare" and len(t) == 6:
            ps = [x[2] if isinstance(x, tuple) and x[0] == "ap" and x[1] in ("m:begin", "m:end") and len(x) == 3 else None for x in t[2:]]
            if None not in ps and ps[0] == ps[1] and ps[2] == ps[3]:
                return ps[0], ps[2]
        return None
    # ---- step-wise side: constructor, then Iterate on the constructed object with symbolic k, i, path length
    if len(ctor.params) not in (3, 4):
        raise AnalysisBroken("R05.1: TaprootCommitmentEnv(control, program, script[, leaf-hash sink]) takes %d parameters" % len(ctor.params))
    c_outs = [o for o in explore(ctor, this=this, params=pbind(ctor, [CONTROL, PROGRAM, SCRIPT, TLH][:len(ctor.params)])) if o.status in ("end", "ret")]
    if not c_outs:
        raise AnalysisBroken("R05.1: the TaprootCommitmentEnv constructor has no completing path")
    step = {}
    for o in c_outs:
        for fld in ("m_control", "m_program", "m_script", "m_tapleaf_hash", "m_p", "m_q", "m_path_len", "m_k", "m_i"):
            step.setdefault(fld, set()).add(nslice(o.field(this, fld)))
    if any(len(v) != 1 for v in step.values()):
        raise AnalysisBroken("R05.1: the constructor leaves %s path-dependent" % [k for k, v in step.items() if len(v) != 1])
    step = {k: list(v)[0] for k, v in step.items()}
    if step["m_control"] != CONTROL or step["m_program"] != PROGRAM or step["m_script"] != SCRIPT or (len(ctor.params) == 4 and step["m_tapleaf_hash"] != TLH):
        raise AnalysisBroken("R05.1: the constructor does not store its arguments in m_control / m_program / m_script / m_tapleaf_hash")
    heap = {(this, "m_k"): K, (this, "m_i"): I_, (this, "m_path_len"): ("a", "n"), (this, "m_control"): CONTROL, (this, "m_p"): ("a", "p"), (this, "m_q"): ("a", "q")}
    i_outs = [o for o in explore(it, this=this, heap=heap) if o.status == "ret"]

    def fold_facts(pairs, k_atom, hint):
        """pairs: [(decided conditions, new k term)] of one fold step"""
        out = {}
        for conds, newk in pairs:
            cmpc = [(lt_of(t), v) for (t, v) in conds if lt_of(t) is not None]
            if not cmpc:
                continue
            (P, Q), v = cmpc[-1]
            out["cmp"] = (symx.show(P), symx.show(Q))
            node = Q if P == k_atom else P
            out["slice"] = node
            if isinstance(newk, tuple) and newk[0] == "ap" and newk[1].startswith("m:Get") and len(newk) == 3:
                out["k_update"] = newk[1][2:]
                base, ops = symx.unmut(newk[2])
                out["hasher"] = symx.show(base)
                seq = ["k" if op[1] == k_atom else ("node" if op[1] == node else symx.show(op[1])) for op in ops if op[0] == "<<"]
                out["then" if v else "else"] = seq
                out["types"] = sorted({op[2][1] for op in ops if len(op) > 2})
            else:
                out["k_update"] = symx.show(newk)[:60]
        return out
    fs = fold_facts([([(nslice(t), v) for (t, v) in o.conds], nslice(o.field(this, "m_k"))) for o in i_outs if o.field(this, "m_k") != K], K, "step")
    fs["path_len"] = step["m_path_len"]
    adv = {symx.show(o.field(this, "m_i")) for o in i_outs if o.field(this, "m_k") != K}
    # ---- batch twin
    r_outs = [o for o in explore(root_twin, params=pbind(root_twin, [CONTROL, K])) if o.status == "ret"]
    pairs = []
    ft = {}
    for o in r_outs:
        r = nslice(o.ret)
        if isinstance(r, tuple) and r[0] == "ap" and r[1] == "loopvar" and len(r) == 6:
            key, newk, old = r[2], r[3], r[4]
            mine = ("prev", r[5][1])      # the value of k at the beginning of an arbitrary iteration
            if old != K:
                raise AnalysisBroken("R05.1: ComputeTaprootMerkleRoot does not start the fold from the leaf hash")
            if isinstance(key, tuple) and key[0] == "ap" and key[1] == "while" and isinstance(key[2], tuple) and key[2][:3] == ("ap", "<", ("it", 0)):
                ft["path_len"] = key[2][3]
            conds = [(nslice(c02sub(c02sub(t), mine, K)), v) for (t, v) in o.conds]
            pairs.append((conds, c02sub(c02sub(newk), mine, K)))
    ft.update(fold_facts(pairs, K, "twin"))
    for key, what in (("hasher", "branch hasher"), ("cmp", "ordering predicate operands"), ("then", "operands streamed when k < node"), ("else", "operands streamed otherwise"),
                      ("slice", "control-block slice of path node i"), ("path_len", "path length"), ("k_update", "k := hash of the branch")):
        ctx.site()
        a, b = fs.get(key), ft.get(key)
        sa = symx.show(a) if isinstance(a, tuple) and a and a[0] in ("slice", "ap", "lin", "a", "c") else a
        sb = symx.show(b) if isinstance(b, tuple) and b and b[0] in ("slice", "ap", "lin", "a", "c") else b
        ctx.inst(a is not None and a == b, "R05.1", "fold:" + key, it.loc(), "%s: %s" % (what, sa),
                 "%s differs: step-wise %s, batch twin %s" % (what, sa, sb))
    ctx.inst(adv == {symx.show(("ap", "++", I_))} or adv == {symx.show(symx.lin_add(I_, C(1)))}, "R05.1", "fold:advance", it.loc(), "each fold step advances the path index by one",
             "a fold step leaves the path index as %s" % sorted(adv))
    node_spec = ("slice", CONTROL, symx.lin_add(symx.lin_scale(I_, 32), C(33)), C(32))
    spec = {"cmp": (symx.show(K), symx.show(node_spec)), "then": ["k", "node"], "else": ["node", "k"], "slice": node_spec, "hasher": "HASHER_TAPBRANCH", "k_update": "GetSHA256",
            "path_len": ("ap", "/", symx.lin_add(("ap", "m:size", CONTROL), C(-33)), C(32))}
    for key, want in spec.items():
        got = ft.get(key)
        ctx.inst(got == want, "R05.1", "fold-spec:" + key, root_twin.loc(), "twin %s == BIP341" % key,
                 "batch twin %s is %s, BIP341 says %s" % (key, symx.show(got) if isinstance(got, tuple) and got and isinstance(got[0], str) and got[0] in ("slice", "ap", "lin") else got,
                                                         symx.show(want) if isinstance(want, tuple) and want[0] in ("slice", "ap", "lin") else want))
    # ---- leaf stream: the twin's parameters are bound to the arguments of its call in VerifyWitnessProgram
    calls = [(f, n) for f in fb.funcs.values() for n in f.nodes() if n["k"] == "call" and n.get("cid") == leaf_twin.id and len(n["args"]) == 2]
    if not calls:
        raise AnalysisBroken("R05.1: no call of ComputeTapleafHash found")
    a0 = None
    for (cf_, cn_) in calls:
        try:
            arg0 = cn_["args"][0]
            a_ = arg0
            while a_ is not None and a_.get("k") in ("cast", "paren"):
                a_ = a_["e"]
            if a_ is not None and a_.get("k") == "ref" and a_.get("dk") == "local" and astq.single_defs(cf_).get(a_.get("d")) is not None:
                arg0 = astq.single_defs(cf_)[a_["d"]]      # a write-once local holding the masked byte (one level: `control` itself stays an atom)
            ax = X.eval_expr(cf_, arg0)
        except symx.Unsupported as e:
            raise AnalysisBroken("R05.1: leaf version argument: %s" % e)
        masked = isinstance(ax, tuple) and ax[0] == "ap" and ax[1] == "&" and len(ax) == 4 and ax[3] == C(0xfe) and isinstance(ax[2], tuple) and ax[2][:2] == ("ap", "[]") and ax[2][3] == C(0)
        ctx.site()
        ctx.inst(masked, "R05.1", "leaf-version-masked@" + cf_.name, cf_.loc(cn_), "%s passes control[0] & TAPROOT_LEAF_MASK as leaf version" % cf_.name,
                 "%s computes a leaf hash with leaf version `%s`: BIP341 uses control[0] & 0xfe - with an odd output key the parity bit leaks into the leaf hash" % (cf_.name, symx.show(ax)))
        if masked and a0 is None:
            atoms = {x for x in symx.subterms(ax) if isinstance(x, tuple) and x and x[0] == "a"}
            if len(atoms) == 1:
                a0 = c02sub(ax, list(atoms)[0], CONTROL)
    if a0 is None:
        a0 = ("ap", "&", ("ap", "[]", CONTROL, C(0)), C(0xfe))
    l_outs = [o for o in explore(leaf_twin, params=pbind(leaf_twin, [a0, SCRIPT])) if o.status == "ret"]
    twin_leaf = {nslice(o.ret) for o in l_outs}
    want_leaf = ("ap", "m:GetSHA256", symx.stream(("a", "HASHER_TAPLEAF"), (("ap", "&", ("ap", "[]", CONTROL, C(0)), C(0xfe)), "unsigned char"), (SCRIPT, "CScript")))
    ctx.site(2)
    ctx.inst(twin_leaf == {step["m_k"]}, "R05.1", "leaf-stream", ctor.loc(), "leaf hash = %s" % symx.show(step["m_k"]),
             "step-wise leaf hash is %s; the batch twin computes %s" % (symx.show(step["m_k"]), sorted(symx.show(x) for x in twin_leaf)))
    ctx.inst(twin_leaf == {want_leaf}, "R05.1", "leaf-stream-spec", leaf_twin.loc(), "twin leaf stream is TapLeaf(leaf version byte, script) as in BIP341",
             "the batch twin's leaf hash is %s; BIP341 defines %s" % (sorted(symx.show(x) for x in twin_leaf), symx.show(want_leaf)))
    # ---- keys and final check
    v_outs = [o for o in explore(ver_twin, params=pbind(ver_twin, [CONTROL, PROGRAM, TLH])) if o.status == "ret"]
    tw_checks = {tuple(nslice(t) for t in e.terms) for o in v_outs for e in o.events if e.kind == "mcall" and e.name == "CheckTapTweak"}
    heap2 = dict(heap)
    heap2[(this, "m_p")] = step["m_p"]
    heap2[(this, "m_q")] = step["m_q"]
    i2 = [o for o in explore(it, this=this, heap=heap2) if o.status == "ret"]
    st_checks = {tuple(nslice(t) for t in e.terms) for o in i2 for e in o.events if e.kind == "mcall" and e.name == "CheckTapTweak"}
    if len(tw_checks) != 1:
        raise AnalysisBroken("R05.1: the batch twin VerifyTaprootCommitment has %d distinct CheckTapTweak calls" % len(tw_checks))
    tq, tp, troot, tpar = list(tw_checks)[0]
    sq = sp_ = spar = None
    if len(st_checks) == 1:
        sq, sp_, sk, spar = list(st_checks)[0]
    else:
        sk = None
    for name, a, b in (("p", sp_, tp), ("q", sq, tq)):
        ctx.site()
        ctx.inst(a is not None and a == b, "R05.1", "key:" + name, ctor.loc(), "%s = %s" % (name, symx.show(a)), "key %s: step-wise takes %s, batch twin takes %s" % (name, symx.show(a), symx.show(b)))
    ctx.inst(tp == ("slice", CONTROL, C(1), C(32)) and tq == PROGRAM, "R05.1", "key-spec:p", ver_twin.loc(), "internal key = control[1..33), output key = the witness program",
             "the batch twin takes p = %s, q = %s" % (symx.show(tp), symx.show(tq)))
    root_ok = isinstance(troot, tuple) and troot[0] == "ap" and troot[1] == "ComputeTaprootMerkleRoot" and troot[2:] == (CONTROL, TLH)
    ctx.site()
    ctx.inst(len(st_checks) == 1 and sk == K and spar == tpar and sq == tq and sp_ == tp, "R05.1", "final-check", it.loc(),
             "final check: q.CheckTapTweak(p, k, %s)" % symx.show(spar),
             "final check differs: step-wise %s, batch twin %s" % (sorted([symx.show(x) for x in c] for c in st_checks), [symx.show(x) for x in list(tw_checks)[0]]))
    ctx.inst(root_ok and tpar == ("ap", "&", ("ap", "[]", CONTROL, C(0)), C(1)), "R05.1", "final-check-spec", ver_twin.loc(), "twin: q.CheckTapTweak(p, merkle_root(control, leaf hash), control[0] & 1)")
    # the result decides Done / Failed
    st_enum = [e for e in fb.enums if e["name"].endswith("TaprootCommitmentEnv::State") or e["name"].endswith("State") and any(c["n"] == "Failed" for c in e["consts"])]
    if not st_enum:
        raise AnalysisBroken("R05.1: enum TaprootCommitmentEnv::State not found")
    ev_ = {c["n"]: c["v"] for c in st_enum[0]["consts"]}
    ok_ret = True
    nfin = 0
    for o in i2:
        chk = [(t, v) for (t, v) in o.conds if isinstance(t, tuple) and t[0] == "ap" and t[1] == "m:CheckTapTweak"]
        if chk:
            nfin += 1
            if o.ret != C(ev_["Done"] if chk[-1][1] else ev_["Failed"]):
                ok_ret = False
        elif any(e.name == "CheckTapTweak" for e in o.events):
            ok_ret = False
    ctx.inst(ok_ret and nfin >= 2, "R05.1", "result-decides-state", it.loc(), "Iterate returns Done iff the tweak check succeeded, Failed otherwise")

    # ---- R05.2
    cons = {"TAPROOT_CONTROL_BASE_SIZE": 33, "TAPROOT_CONTROL_NODE_SIZE": 32, "TAPROOT_CONTROL_MAX_NODE_COUNT": 128, "TAPROOT_CONTROL_MAX_SIZE": 33 + 32 * 128,
            "TAPROOT_LEAF_MASK": 0xfe, "TAPROOT_LEAF_TAPSCRIPT": 0xc0, "WITNESS_V1_TAPROOT_SIZE": 32, "ANNEX_TAG": 0x50}
    for name, val in sorted(cons.items()):
        v = fb.var(name)
        ctx.site()
        ctx.inst(v.get("value") == val, "R05.2", "const=" + name, "%s:%d" % (v["file"], v["line"]), "%s == %d" % (name, val), "%s is %s, BIP341 says %d" % (name, v.get("value"), val))
    cfgf = fb.fn("Instance::configure_tx_txin")
    vwp = fb.fn("VerifyWitnessProgram")

    # the control-size conditions decided on every accepting tapscript path of set-up equal the verifier's (G-SYM outcomes);
    # this also covers "the commitment environment is constructed only after the size check": a path that creates it without
    # having decided them has a different condition set
    from . import c03_setup
    c03_setup.check_control_size(ctx, fb, prog)
    ctx.rule("R05.5", "a session that was handed the commitment check cannot be finished before the check has run (shared with C03 R03.3)")
    c03_setup.check_commitment_not_skipped(ctx, fb, prog, rule="R05.5")
    # ---- R05.3
    stepper = fb.fn("StepScript", file="debugger/interpreter.cpp")
    # the hash handed on for signing is the leaf hash as computed at construction: through the sink pointer, or kept by value
    ok_exp = True
    nexp = 0
    for o in c_outs:
        if len(ctor.params) == 4:
            sink = None
            for (t_, v_) in o.conds:
                if t_ == TLH:
                    sink = v_
            if sink is False:
                continue
            got = o.heap.get((TLH, "*"))
        else:
            got = o.field(this, "m_tapleaf_hash")
        nexp += 1
        if nslice(got) != step["m_k"]:
            ok_exp = False
    ctx.site()
    ctx.inst(ok_exp and nexp > 0, "R05.3", "leaf-hash-exported-at-construction", ctor.loc(),
             "the constructor exports k through m_tapleaf_hash right after computing the leaf hash (before any branch is folded)")
    # the stepper's commitment prologue per state of Iterate(), on G-SYM outcomes (switch, if-chain or a held result alike)
    _st, prol = c03_setup.commitment_prologue(fb, prog)
    done_o, failed_o = prol.get("Done", []), prol.get("Failed", [])
    if not done_o or not failed_o:
        raise AnalysisBroken("R05.3: states Done / Failed of the commitment environment not found")
    srcs = []
    done_ok = True
    for o in done_o:
        got = [v for (k, v) in o.heap.items() if k[1] == "m_tapleaf_hash" and isinstance(k[0], tuple) and (k[0][0] == "f" and k[0][2] == "execdata" or k[0][0] == "obj")]
        want_ok = bool(got) and all(isinstance(v, tuple) and v[0] == "f" and v[2] == "*" and isinstance(v[1], tuple) and v[1][0] == "f" and v[1][2] == "m_tapleaf_hash" and
                                    isinstance(v[1][1], tuple) and v[1][1][0] == "f" and v[1][1][2] == "tce" for v in got)
        srcs += [symx.show(v) for v in got]
        done_ok = done_ok and want_ok
    src = ", ".join(sorted(set(srcs))) or None
    failed_ok = all(o.ret == symx.C(0) and c03_setup.advance_of(o) == 0 for o in failed_o)
    ctx.site(2)
    ctx.inst(done_ok, "R05.3", "signed-leaf-hash-is-derived-leaf-hash", stepper.loc(), "Done copies *tce->m_tapleaf_hash (the exported leaf hash) into execdata.m_tapleaf_hash",
             "the Done transition copies `%s` into the signing data; the leaf hash is *tce->m_tapleaf_hash (m_k has been folded with the path and is the Merkle root by then)" % src)
    ctx.inst(failed_ok, "R05.3", "failed-does-not-advance", stepper.loc(), "a failed commitment check fails the step without advancing")
    # a failed commitment stays failed: the environment is not released on the Failed path (a later `step` would otherwise run
    # the script as if the commitment had held) unless the session is finished there and then
    released = []
    for o in failed_o:
        tce_v = [v for (k, v) in o.heap.items() if k[1] == "tce"]
        done_v = [v for (k, v) in o.heap.items() if k[1] == "done"]
        if tce_v and tce_v[-1] in (symx.NULL, symx.C(0)) and not (done_v and done_v[-1] == symx.C(1)):
            released.append(o)
    ctx.inst(not released, "R05.3", "failed-commitment-stays-failed", stepper.loc(), "on the Failed path the commitment environment is kept (every later step fails again)",
             "on the Failed path the stepper releases the commitment environment (tce = nullptr) without finishing the session: the next `step` executes the script although the commitment check failed")
    # ---- R05.4
    ctt = fb.fn("XOnlyPubKey::CheckTapTweak")
    call = [n for n in ctt.nodes() if n["k"] == "call" and n.get("n") == "secp256k1_xonly_pubkey_tweak_add_check"]
    used = {p["n"]: any(x["k"] == "ref" and x.get("d") == p["d"] for n in call for x in walk(n)) or
            any(x["k"] == "ref" and x.get("d") == p["d"] for x in ctt.nodes() if x["k"] == "ref") for p in ctt.params}
    in_call = {p["n"]: any(x["k"] == "ref" and x.get("d") == p["d"] for n in call for x in walk(n)) for p in ctt.params}
    ctx.site()
    ctx.inst(len(call) == 1 and in_call.get("parity") and all(used.values()), "R05.4", "tweak-check-uses-all-inputs", ctt.loc(),
             "CheckTapTweak calls secp256k1_xonly_pubkey_tweak_add_check with the parity and uses every parameter",
             "CheckTapTweak %s: a control block with the wrong parity bit is accepted" % ("does not call secp256k1_xonly_pubkey_tweak_add_check" if not call else "does not pass `parity` to the libsecp check"))
    rets = [n for n in ctt.nodes() if n["k"] == "return"]
    ctx.inst(bool(call) and any(S.contains(r, call[0]) for r in rets), "R05.4", "tweak-check-result-returned", ctt.loc(), "the libsecp verdict is the return value")

    # ---- R05.6 what is displayed is the BIP341 value: a 32-byte hash of the commitment check is rendered in the byte order in
    # which it is hashed (HexStr / its own bytes), not through uint256::ToString / GetHex, which print it byte-reversed
    ctx.rule("R05.6", "intermediate hashes of the commitment check are displayed in hashing byte order (no uint256::ToString / GetHex)")
    nshown = 0
    rev = []
    for f in fb.funcs.values():
        if f.rec != "TaprootCommitmentEnv" or f.body is None:
            continue
        for n in f.nodes():
            if n["k"] == "mcall" and n.get("n") in ("ToString", "GetHex") and (n.get("mrec") or "") in ("base_blob", "uint256"):
                nshown += 1
                rev.append((f, n))
            if n["k"] == "call" and n.get("n") == "HexStr":
                nshown += 1
    ctx.site(nshown)
    ctx.inst(nshown > 0 and not rev, "R05.6", "hashes-shown-in-hashing-order", (rev[0][0].loc(rev[0][1]) if rev else stepper.loc()),
             "the commitment environment renders its hashes with HexStr",
             "%s prints `%s`: uint256::ToString reverses the bytes, so the logged running hash is the byte-reversal of the BIP341 value (and contradicts the state pane, which shows it in hashing order)" %
             ((rev[0][0].name, astq.estr(rev[0][1])[:40]) if rev else ("", "")))

    # ---- R05.7 the running hash is the fold of the first m_i path nodes: the two members move together. Every write of the path
    # index of TaprootCommitmentEnv, in whatever function, is accompanied by a write of the running hash on the same paths (the hash
    # write dominates it, or every path on from it passes one).
    ctx.rule("R05.7", "the path index and the running hash of the commitment check are written together")
    rec57 = "TaprootCommitmentEnv"
    flds = {fl["n"] for fl in fb.records.get(rec57, {}).get("fields", [])}
    if not {"m_i", "m_k"} <= flds:
        raise AnalysisBroken("R05.7: TaprootCommitmentEnv has no members m_i / m_k (renamed): update the rule's anchor names")
    n57 = 0
    for f in sorted(fb.funcs.values(), key=lambda f_: f_.id):
        if f.body is None:
            continue

        def writes_of(name):
            out = []
            for n in f.nodes():
                t = None
                if n["k"] in ("assign", "cassign"):
                    t = n["lhs"]
                elif n["k"] == "un" and n.get("op") in ("++", "--"):
                    t = n["e"]
                elif n["k"] == "opcall" and n.get("op") in ("=",) and n.get("args"):
                    t = n["args"][0]
                while t is not None and t.get("k") in ("cast", "paren"):
                    t = t["e"]
                if t is not None and t.get("k") == "mem" and t.get("n") == name and t.get("rec") == rec57:
                    out.append(n)
            return out
        wi = writes_of("m_i")
        if not wi:
            continue
        wk = writes_of("m_k")
        fcfg = f.cfg()
        for n in wi:
            n57 += 1
            ctx.site()
            ok57 = any(fcfg.dominates(k_, n) for k_ in wk) or (bool(wk) and fcfg.must_pass_after(n, wk))
            ctx.inst(ok57, "R05.7", "index-and-hash-move-together@" + f.name.split("(")[0], f.loc(n),
                     "`%s` is accompanied by a write of the running hash" % astq.estr(n)[:40],
                     "%s changes the path index (`%s`) without the running hash m_k: the hash no longer is the fold of the first m_i nodes - the next step hashes a node in twice (or skips one) and a valid commitment fails"
                     % (f.name, astq.estr(n)[:40]))
    ctx.floor("R05.7", n57, 2, "writes of the commitment path index")


def c02sub(t, a=("it", 0), b=("a", "i")):
    """replace term a by b everywhere"""
    if t == a:
        return b
    if isinstance(t, tuple):
        return tuple(c02sub(x, a, b) for x in t)
    return t


def size_pred_is(n):
    dj = S.disjuncts(n["cond"])
    return len(dj) == 3 and all("control.size()" in astq.estr(d) for d in dj)


MUTANTS = [
    dict(name="rewind-moves-only-the-path-index", file="instance.cpp", find="bool Instance::rewind() {\n", replace="bool Instance::rewind() {\n    if (env->tce && env->tce->m_i > 0 && env->pc == env->script.begin()) { --env->tce->m_i; --env->curr_op_seq; return true; }\n", expect=["R05.7:index-and-hash-move-together@Instance::rewind"]),
    dict(name="running-hash-shown-reversed", file="debugger/interpreter.cpp", find="        btc_taproot_logf(\"  - %d: k -> %s\\n\", m_i, HexStr(m_k).c_str());", replace="        btc_taproot_logf(\"  - %d: k -> %s\\n\", m_i, m_k.ToString().c_str());", expect=["R05.6:hashes-shown-in-hashing-order"]),
    dict(name="failed-commitment-released", file="debugger/interpreter.cpp", find="        case TaprootCommitmentEnv::State::Failed:\n            return false;", replace="        case TaprootCommitmentEnv::State::Failed:\n            delete env.tce;\n            env.tce = nullptr;\n            return false;", expect=["R05.3:failed-commitment-stays-failed"]),
    dict(name="commitment-skipped-for-empty-script", file="instance.cpp", find="    env->done &= successor_script.size() == 0 && !tce;\n", replace="    env->done &= successor_script.size() == 0;\n", expect=["R05.5:pending-commitment-not-done"]),
    dict(name="step-swaps-branch-operands", file="debugger/interpreter.cpp", find="            ss_branch << m_k << node;", replace="            ss_branch << node << m_k;", expect=["R05.1:fold:then"]),
    dict(name="step-node-offset-off-by-one", file="debugger/interpreter.cpp", find="Span<const unsigned char> node(m_control.data() + TAPROOT_CONTROL_BASE_SIZE + TAPROOT_CONTROL_NODE_SIZE * m_i, TAPROOT_CONTROL_NODE_SIZE);",
         replace="Span<const unsigned char> node(m_control.data() + TAPROOT_CONTROL_BASE_SIZE - 1 + TAPROOT_CONTROL_NODE_SIZE * m_i, TAPROOT_CONTROL_NODE_SIZE);", expect=["R05.1:fold:slice"]),
    dict(name="step-parity-negated", file="debugger/interpreter.cpp", find="bool res = m_q.CheckTapTweak(m_p, m_k, m_control[0] & 1);", replace="bool res = m_q.CheckTapTweak(m_p, m_k, !(m_control[0] & 1));", expect=["R05.1:final-check"]),
    dict(name="step-leaf-mask-dropped", file="debugger/interpreter.cpp", find="m_k = (HashWriter(HASHER_TAPLEAF) << uint8_t(control[0] & TAPROOT_LEAF_MASK) << script).GetSHA256();", replace="m_k = (HashWriter(HASHER_TAPLEAF) << uint8_t(control[0]) << script).GetSHA256();", expect=["R05.1:leaf-stream"]),
    dict(name="step-wrong-hasher", file="debugger/interpreter.cpp", find="        HashWriter ss_branch = HASHER_TAPBRANCH;", replace="        HashWriter ss_branch = HASHER_TAPLEAF;", expect=["R05.1:fold:hasher"]),
    dict(name="tag-typo", file="script/interpreter.cpp", find="TaggedHash(\"TapBranch\")", replace="TaggedHash(\"TapBranche\")", expect=["R05.1:tag=HASHER_TAPBRANCH"]),
    dict(name="done-copies-root", file="debugger/interpreter.cpp", find="env.execdata.m_tapleaf_hash = *env.tce->m_tapleaf_hash;", replace="env.execdata.m_tapleaf_hash = env.tce->m_k;", expect=["R05.3:signed-leaf-hash-is-derived-leaf-hash"]),
    dict(name="parity-ignored", file="pubkey.cpp", find="    return secp256k1_xonly_pubkey_tweak_add_check(secp256k1_context_verify, m_keydata.begin(), parity, &internal_key, tweak.begin());",
         replace="    auto ret = internal.CreateTapTweak(&merkle_root);\n    return ret && ret->first == *this;", expect=["R05.4:tweak-check-uses-all-inputs"]),
    dict(name="control-size-predicate-relaxed", file="instance.cpp", find="control.size() > TAPROOT_CONTROL_MAX_SIZE || ((control.size()", replace="control.size() > TAPROOT_CONTROL_MAX_SIZE + 32 || ((control.size()", expect=["R05.2:control-size-predicate"]),
    dict(name="internal-key-offset", file="debugger/interpreter.cpp", find="m_p{uint256(std::vector<unsigned char>(control.begin() + 1, control.begin() + TAPROOT_CONTROL_BASE_SIZE))}", replace="m_p{uint256(std::vector<unsigned char>(control.begin(), control.begin() + TAPROOT_CONTROL_BASE_SIZE - 1))}", expect=["R05.1:key:p"]),
    dict(name="failed-advances", file="debugger/interpreter.cpp", find="        case TaprootCommitmentEnv::State::Failed:\n            return false;", replace="        case TaprootCommitmentEnv::State::Failed:\n            ++env.curr_op_seq;\n            return false;", expect=["R05.3:failed-does-not-advance"]),
]
