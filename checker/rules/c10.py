"""C10 - resource limits at exactly the consensus bounds (DESIGN.md section 4, C10)."""
import json
import os

from .. import astq, structure as S
from ..facts import AnalysisBroken, VERIF, walk

EXPLANATION = (
    "Static check of every comparison against a consensus limit constant in code reachable from the three tools: the "
    "limit value equals the consensus value (taken from the compiler's constant evaluation), the comparison rejects "
    "exactly the values strictly greater than the limit (threshold arithmetic on the constant-evaluated operand, so "
    "`x > L` and `x >= L+1` are the same and `x >= L` is not), its true edge leads to a rejection on every path (CFG "
    "must-pass), each limit is still enforced somewhere inside the operation step / session set-up, the operation "
    "counter is incremented before the executed/unexecuted test under the BASE/WITNESS_V0 test, the multisig key "
    "count is added before its comparison, tapscript is exempt from the op-count and script-size limits, and every "
    "numeric operand of a consensus opcode is decoded with the 4-byte default except the two lock-time opcodes (5). "
    "That a script AT a limit succeeds is not decided (it needs the rest of the interpreter). R10.9: from every statement of the operation step that grows the stack or the alt stack, every path to the exit passes the MAX_STACK_SIZE comparison (or a helper call making it) or a failing return; R10.7 judges a helper that receives the quantity as a parameter per call site inside the operation step.")
TRUSTED = ["clang 14 parser/Sema/constant evaluator/CFG", "/verif extractor and engines", "spec/limits.json transcription of the consensus values"]
ASSUMPTIONS = ["Makefile.am source lists are what is shipped", "limit constants are only used through their names (a raw literal 520 would not be seen)"]
DECLINED = ["that a script exactly at a limit succeeds", "that the counted quantities (sizes, counts) are the right ones beyond their names/fields"]


def limit_refs(expr, limits):
    out = []
    for n in walk(expr):
        if n["k"] == "ref" and n.get("dk") == "global" and n["n"] in limits:
            out.append(n["n"])
    return out


def cmp_parts(n):
    if n["k"] == "bin" and n["op"] in ("<", ">", "<=", ">=", "==", "!="):
        return n["op"], n["lhs"], n["rhs"]
    if n["k"] == "opcall" and n["op"] in ("<", ">", "<=", ">=", "==", "!=") and len(n["args"]) == 2:
        return n["op"], n["args"][0], n["args"][1]
    return None


def reject_nodes(func, predicate_true_rejects=False):
    """statements that end the function in a rejection"""
    out = []
    for n in func.nodes():
        if n["k"] == "throw":
            out.append(n)
        elif n["k"] == "return":
            e = n.get("e")
            if e is None:
                continue
            if astq.const_value(e) == 0:
                out.append(n)
        elif n["k"] == "call" and n.get("n") == "set_error":
            out.append(n)
    return out


def run(ctx, anchors=None):
    fb, prog = ctx.facts, ctx.prog
    spec = json.load(open(os.path.join(VERIF, "spec/limits.json")))
    LIM = spec["limits"]
    A = anchors or {
        "opstep": ("StepScript", "script/interpreter.cpp"),
        "stepper": ("StepScript", "debugger/interpreter.cpp"),
        "setup": ("Instance::setup_environment", "instance.cpp"),
        "numctor": "CScriptNum::CScriptNum",
        "extended": ("StepExtended", "debugger/interpreter.cpp"),
    }
    ctx.rule("R10.1", "each limit constant has the consensus value (compiler-evaluated)")
    ctx.rule("R10.2", "each comparison with a limit rejects exactly values > limit, and its true edge is a rejection on every path")
    ctx.rule("R10.2b", "each limit is enforced at least at its required place (operation step / session set-up)")
    ctx.rule("R10.3", "op counter: ++ before the comparison and before the executed/unexecuted test, under sigversion in {BASE, WITNESS_V0}; key count added before its comparison")
    ctx.rule("R10.4", "tapscript is exempt from the op-count and script-size limits at every reachable enforcement site")
    ctx.rule("R10.5", "numeric operands of consensus opcodes use the 4-byte default; only CLTV/CSV use 5")
    ctx.rule("R10.6", "the op counter is reset at every script switch of the session stepper")

    # ---- R10.1
    for name, s in sorted(LIM.items()):
        v = fb.var(name)
        ctx.site()
        ctx.inst(v.get("value") == s["value"], "R10.1", "const=" + name, "%s:%d" % (v["file"], v["line"]),
                 "%s == %d (%s)" % (name, s["value"], s["what"]),
                 "%s is %s, consensus value is %d (%s)" % (name, v.get("value"), s["value"], s["what"]))
    nd = fb.var("CScriptNum::nDefaultMaxNumSize")
    ctx.inst(nd.get("value") == spec["num_size"]["default"], "R10.1", "const=nDefaultMaxNumSize", "%s:%d" % (nd["file"], nd["line"]),
             "default numeric operand size is 4 bytes", "default numeric operand size is %s, not 4" % nd.get("value"))

    # ---- reachability scopes
    mains = [f for f in fb.funcs.values() if f.d.get("main")]
    if len(mains) < 3:
        raise AnalysisBroken("expected the three main() functions, found %d" % len(mains))
    reach = prog.reachable(mains)
    opstep = fb.fn(*A["opstep"])
    stepper = fb.fn(*A["stepper"])
    setup = fb.fn(*A["setup"])
    reach_step = prog.reachable([opstep])
    reach_setup = prog.reachable([setup])
    ctx.extra["functions_reachable_from_mains"] = len(reach)

    # ---- R10.2 all comparisons
    sites = []
    seen_loc = set()
    for f in fb.funcs.values():
        for n in f.nodes():
            cp = cmp_parts(n)
            if not cp:
                continue
            op, a, b = cp
            la, lb = limit_refs(a, LIM), limit_refs(b, LIM)
            is_num = False
            if not la and not lb:
                # number-size check: comparison of a size against the nMaxNumSize parameter in the CScriptNum constructor
                if f.name == A["numctor"] and any(x["k"] == "ref" and x.get("dk") == "parm" and x["n"] == "nMaxNumSize" for x in list(walk(a)) + list(walk(b))):
                    is_num = True
                else:
                    continue
            key = (f.file, n.get("l"), n.get("c"))
            if key in seen_loc:
                continue
            seen_loc.add(key)
            sites.append((f, n, op, a, b, la, lb, is_num))
    per_limit = {}
    helper_sites = {}
    for (f, n, op, a, b, la, lb, is_num) in sites:
        ctx.site()
        reachable = f.id in reach
        if is_num:
            lname = "nMaxNumSize"
            limit_on_right = any(x["k"] == "ref" and x["n"] == "nMaxNumSize" for x in walk(b))
            strict_ok = (op == ">" and limit_on_right) or (op == "<" and not limit_on_right)
            thr_txt = "strict comparison against the per-call size bound"
        else:
            lname = (la or lb)[0]
            limit_on_right = bool(lb)
            lim_expr = b if limit_on_right else a
            cv = astq.const_value(lim_expr)
            L = LIM[lname]["value"]
            # threshold T: the comparison is true exactly for values > T
            T = None
            if cv is not None:
                if limit_on_right:
                    T = {">": cv, ">=": cv - 1}.get(op)
                else:
                    T = {"<": cv, "<=": cv - 1}.get(op)
            strict_ok = (T == L)
            thr_txt = "true exactly for values > %s" % T if T is not None else "operator '%s' does not bound from above" % op
        inst_key = "%s@%s:%s" % (lname, f.name, astq.estr(a if limit_on_right else b)[:60])
        per_limit.setdefault(lname, []).append((f, n, reachable))
        if not strict_ok:
            ctx.fail("R10.2", "cmp=" + inst_key, f.loc(n), "limit comparison `%s` is not 'reject iff value > %s' (%s)"
                     % (astq.estr(n), lname, thr_txt))
            continue
        # outcome: true edge must be a rejection on all paths
        cfg = f.cfg()
        rejects = reject_nodes(f)
        edge_succ = None
        for (blk, s, c, t) in cfg.cond_edges():
            if c == n["id"] and t:
                edge_succ = s
        ok = False
        how = ""
        if edge_succ is not None:
            ok = bool(rejects) and cfg.must_pass_from_block(edge_succ, rejects)
            how = "true edge reaches only rejecting exits (set_error / return false / throw)"
        else:
            # value of the comparison is (a disjunct of) a returned predicate value
            par = f.parent(n)
            top = n
            while par is not None and par.get("k") == "bin" and par.get("op") == "||":
                top = par
                par = f.parent(par)
            if par is not None and par.get("k") == "return" and f.short in ("IsUnspendable",):
                ok = True
                how = "disjunct of the value returned by predicate %s (true = unspendable)" % f.short
            elif par is not None and par.get("k") == "return" and f.d.get("ret") == "bool":
                # a predicate helper: every call site must branch on it and reject on true
                csites = []
                for g in fb.funcs.values():
                    for cn in g.nodes():
                        if astq.is_call(cn) and cn.get("cid") == f.id:
                            csites.append((g, cn))
                good = bool(csites)
                for (g, cn) in csites:
                    gcfg = g.cfg()
                    es = [s_ for (blk, s_, c, t) in gcfg.cond_edges() if c == cn["id"] and t]
                    rj = reject_nodes(g)
                    if not es or not rj or not gcfg.must_pass_from_block(es[0], rj):
                        good = False
                    helper_sites.setdefault(f.id, []).append((g, cn))
                ok = good
                how = "value of predicate helper %s; all %d call sites reject on true" % (f.name, len(csites))
        ctx.inst(ok, "R10.2", "cmp=" + inst_key, f.loc(n), "`%s`: %s; %s" % (astq.estr(n), thr_txt, how),
                 "`%s`: exceeding the limit does not lead to a rejection on every path" % astq.estr(n))
    ctx.floor("R10.2", len(sites), 12, "comparisons against limit constants in the tree")

    # ---- R10.7 the compared quantity
    QUANT = {"MAX_STACK_SIZE": {"stack", "altstack"}, "MAX_SCRIPT_ELEMENT_SIZE": {"vchPushValue"}, "MAX_OPS_PER_SCRIPT": {"nOpCount"}}
    ctx.rule("R10.7", "inside the operation step the quantity compared with a limit is the consensus one (stack+altstack items, pushed element size, op counter)")
    for (f, n, op, a, b, la, lb, is_num) in sites:
        if is_num:
            continue
        lname = (la or lb)[0]
        if lname not in QUANT or f.id not in reach_step or f.short == "HasValidOps":
            continue
        other = a if lb else b
        fal = astq.aliases(f)
        pidx = {p_["d"]: i for i, p_ in enumerate(f.params)}
        # a helper that receives the quantity as a parameter is judged per call site inside the operation step (seed C01-K:
        # `TooLarge(stack) || TooLarge(altstack)` - each stack alone may then hold 1000 items); without such sites, over all sites
        own_sites = [(g, cn) for (g, cn) in helper_sites.get(f.id, []) if g is opstep]
        site_groups = [[sc] for sc in own_sites] if (f is not opstep and own_sites) else [helper_sites.get(f.id, [])]
        for hsites in site_groups:
            names = set()
            for x in walk(other):
                if x["k"] in ("ref", "mem"):
                    for pth in astq.paths(x, fal):
                        if pth[0][0] == "parm" and len(pth) == 1 and f is not opstep:
                            # parameter of a helper: substitute the arguments at its call sites
                            i = pidx.get(pth[0][1])
                            for (g, cn) in hsites:
                                obj, args_ = astq.call_args(cn)
                                if i is not None and i < len(args_) and args_[i] is not None:
                                    for q in astq.paths(args_[i], astq.aliases(g)):
                                        names.add([z for z in q if isinstance(z, str) and z not in ("[]", "*")][-1] if len(q) > 1 else q[0][1].split("#")[0])
                        else:
                            fl = [z for z in pth[1:] if z not in ("[]", "*")]
                            names.add(fl[-1] if fl else pth[0][1].split("#")[0] if len(pth[0]) > 1 else "")
            want = QUANT[lname]
            ctx.site()
            ctx.inst(want <= names, "R10.7", "quantity=%s@%s" % (lname, f.name) + ("#%d" % site_groups.index(hsites) if len(site_groups) > 1 else ""), f.loc(n) if len(site_groups) == 1 else opstep.loc(hsites[0][1]),
                     "the quantity compared with %s involves %s" % (lname, ", ".join(sorted(want))),
                     "the quantity compared with %s is `%s`; consensus counts %s (found only %s)" % (lname, astq.estr(other), " + ".join(sorted(want)), ", ".join(sorted(names & want)) or "none of them"))

    # ---- R10.8 the limits the batch validator applies *around* a script have a counterpart in the session: EvalScript tests the
    # size of every script it is given (the session must do so for every script it enters: the first one and each switch), and
    # ExecuteWitnessScript bounds the initial witness stack (element size; number of items for tapscript)
    ctx.rule("R10.8", "limits applied around a script by EvalScript / ExecuteWitnessScript are applied by the session too: script size at every script entered, element size and (tapscript) item count of the initial witness stack")
    from . import common as _cm10
    conf = fb.fn("Instance::configure_tx_txin")
    reach_conf = prog.reachable([conf, setup])
    for lname, what in (("MAX_SCRIPT_ELEMENT_SIZE", "an initial witness item larger than 520 bytes"), ("MAX_STACK_SIZE", "an initial tapscript stack of more than 1000 items")):
        have = [(f, n) for (f, n, r) in per_limit.get(lname, []) if f.id in reach_conf and f.id not in reach_step and f.file in ("instance.cpp", "debugger/interpreter.cpp")]
        ctx.site()
        ctx.inst(bool(have), "R10.8", "initial-witness-stack:" + lname, have[0][0].loc(have[0][1]) if have else conf.loc(),
                 "session set-up compares the initial witness stack with %s" % lname,
                 "session set-up never compares the initial witness stack with %s (ExecuteWitnessScript does): %s is accepted and the script runs" % (lname, what))
    sw10 = _cm10.script_switches(prog, stepper)
    scfg10 = stepper.cfg()
    size_sites = []
    for (f, n, r) in per_limit.get("MAX_SCRIPT_SIZE", []):
        if f is stepper:
            # the test may be guarded by the script version (tapscript is exempt): what must be passed is the `if` that holds it,
            # i.e. the first conjunct of its condition
            ifs = [a for a in stepper.ancestors(n) if a.get("k") == "if" and S.contains(a.get("cond"), n)]
            size_sites.append(S.conjuncts(ifs[0]["cond"])[0] if ifs else n)
    # the test may sit in a same-file helper the stepper calls after the switch (a shared "enter the next script" tail): a call
    # of a helper whose every path passes the test counts as the test
    for (f, n, r) in per_limit.get("MAX_SCRIPT_SIZE", []):
        if f is not stepper and f.file == stepper.file and f.body is not None:
            ifs = [a for a in f.ancestors(n) if a.get("k") == "if" and S.contains(a.get("cond"), n)]
            anchor_ = S.conjuncts(ifs[0]["cond"])[0] if ifs else n
            fcfg_ = f.cfg()
            if fcfg_.must_pass_from_block(fcfg_.entry, [anchor_]):
                for cn in stepper.nodes():
                    if astq.is_call(cn) and cn.get("cid") == f.id:
                        size_sites.append(cn)
    for swn in sw10:
        ctx.site()
        key = astq.estr(swn)[:40]
        ctx.inst(bool(size_sites) and scfg10.must_pass_after(swn, size_sites), "R10.8", "script-size-at-switch:" + key, stepper.loc(swn),
                 "after the switch the size of the script entered is compared with MAX_SCRIPT_SIZE on every path",
                 "the script entered by `%s` is never compared with MAX_SCRIPT_SIZE (only the first script of a session is, in the InterpreterEnv constructor): a scriptPubKey or redeem script of more than 10,000 bytes is executed" % key)

    # ---- R10.2b required enforcement
    for name, s in sorted(LIM.items()):
        scope = reach_step if s["required_in"] == "opstep" else reach_setup
        have = [(f, n) for (f, n, r) in per_limit.get(name, []) if f.id in scope]
        need = s.get("min_sites", 1)
        where = "the operation step" if s["required_in"] == "opstep" else "session set-up"
        ctx.inst(len(have) >= need, "R10.2b", "enforced=" + name, have[0][0].loc(have[0][1]) if have else opstep.loc(),
                 "%s is compared at %d site(s) inside %s" % (name, len(have), where),
                 "%s is enforced at %d site(s) inside %s, %d required: the limit is no longer checked there" % (name, len(have), where, need))
    have_num = [(f, n) for (f, n, r) in per_limit.get("nMaxNumSize", [])]
    ctx.inst(len(have_num) >= 1, "R10.2b", "enforced=nMaxNumSize", have_num[0][0].loc(have_num[0][1]) if have_num else "script/script.h:0",
             "numeric operand size is checked in the CScriptNum constructor",
             "CScriptNum constructor no longer bounds the operand size")

    # ---- R10.9 the combined stack-size test closes every successful operation: from each statement of the operation step that
    # adds an element to the stack or the alt stack, every path to the function's exit evaluates the MAX_STACK_SIZE comparison or
    # a failing return (seed C10-K: `return true` right after the data-push `pushstack` - the 1001st element, when pushed as data,
    # is accepted). Must-pass-through on the CFG of the operation step.
    ctx.rule("R10.9", "every path from a stack growth in the operation step to a successful return passes the MAX_STACK_SIZE test")
    _cfg9 = opstep.cfg()
    checks9 = [n for (f, n, r) in per_limit.get("MAX_STACK_SIZE", []) if f is opstep or f.id == opstep.id]
    for (f, n, r) in per_limit.get("MAX_STACK_SIZE", []):       # ... or a call of a helper that makes the comparison
        checks9 += [cn for (g, cn) in helper_sites.get(f.id, []) if g is opstep]
    fails9 = []
    for n in opstep.nodes():
        if n["k"] != "return" or n.get("e") is None:
            continue
        e9 = n["e"]
        if astq.const_value(e9) == 0 or (astq.is_call(e9) and (e9.get("n") or "") == "set_error" and "SCRIPT_ERR_OK" not in astq.estr(e9)):
            fails9.append(n)
    grows9 = []
    for n in opstep.nodes():
        if n["k"] == "call" and (n.get("n") or "") == "pushstack":
            grows9.append(n)
        elif n["k"] == "mcall" and n.get("n") in ("push_back", "emplace_back", "insert") and n.get("obj") is not None and \
                any(y.get("k") in ("ref", "mem") and y.get("n") in ("stack", "altstack") for y in walk(n["obj"])):
            grows9.append(n)
    if not checks9:
        raise AnalysisBroken("R10.9: no MAX_STACK_SIZE comparison inside the operation step")
    open9 = [n for n in grows9 if not _cfg9.must_pass_after(n, checks9 + fails9)]
    ctx.site(len(grows9))
    ctx.inst(not open9, "R10.9", "size-test-after-every-growth", opstep.loc(open9[0]) if open9 else opstep.loc(checks9[0]),
             "each of the %d statements that grow a stack is followed, on every path to a successful return, by the MAX_STACK_SIZE test" % len(grows9),
             "after `%s` (%s) the operation step can return successfully without evaluating the MAX_STACK_SIZE test: an element pushed there is not counted against the 1000-element limit"
             % (astq.estr(open9[0])[:50] if open9 else "", opstep.loc(open9[0]) if open9 else ""))
    ctx.floor("R10.9", len(grows9), 10, "stack growths in the operation step")

    # ---- R10.3 counting shape
    al = astq.aliases(opstep)
    cfg = opstep.cfg()
    from . import common as _common
    FX = _common.executed_flag(opstep)
    _common.require_names(opstep, ["nOpCount", "stack", "altstack", "vchPushValue", "sigversion", "opcode"], "R10.3")

    def is_env_field(n, fld):
        for p in astq.paths(n, al):
            if p[-1] == fld or (len(p) > 1 and p[1:] == (fld,)):
                return True
        return False
    incs = [n for n in opstep.nodes() if n["k"] == "un" and n["op"] == "++" and is_env_field(n["e"], "nOpCount")]
    if len(incs) != 1:
        ctx.fail("R10.3", "opcount-increment", opstep.loc(), "expected exactly one ++nOpCount in the operation step, found %d" % len(incs))
    else:
        inc = incs[0]
        atoms = S.guard_atoms(opstep, inc)
        # sigversion guard
        sv_ok = False
        other = []
        flat = []
        for (c, t) in S.ast_guards(opstep, inc):
            if t:
                flat += [(cj, True) for cj in S.conjuncts(c)]      # `A && B` guarding the increment is the two guards A, B
            else:
                flat.append((c, False))
        for (c, t) in flat:
            names = S.compared_enumerators(c, lambda e: is_env_field(e, "sigversion")) if t else None
            if names is not None:
                if names == set(spec["counted_sigversions"]):
                    sv_ok = True
                else:
                    other.append("sigversion in %s" % sorted(names))
            else:
                other.append(("" if t else "!") + astq.estr(c))
        ctx.inst(sv_ok, "R10.3", "opcount-sigversion-guard", opstep.loc(inc),
                 "++nOpCount is evaluated under sigversion in {BASE, WITNESS_V0}",
                 "++nOpCount is not guarded by exactly sigversion in {BASE, WITNESS_V0} (guards: %s)" % "; ".join(other))
        # opcode > OP_16 and nothing else
        extra = []
        op16 = False
        for o in other:
            if o.replace(" ", "") in ("(opcode>OP_16)",):
                op16 = True
            else:
                extra.append(o)
        ctx.inst(op16 and not extra, "R10.3", "opcount-counts-every-op>OP_16", opstep.loc(inc),
                 "++nOpCount is evaluated for every opcode > OP_16 and under no other condition",
                 "++nOpCount is evaluated under conditions %s (expected only opcode > OP_16)" % (other,))
        # before the executed/unexecuted test: dominates every read of fExec
        fexec_reads = [n for n in opstep.nodes() if n["k"] == "ref" and n["n"] == FX and n.get("dk") == "local"]
        if not fexec_reads:
            raise AnalysisBroken("R10.3: executed flag not read in the operation step")
        late = [r for r in fexec_reads if not cfg.dominates(inc, r) and not cfg.dominates_block(cfg.position(inc)[0], cfg.position(r)[0])]
        # the increment sits in a conditional; what must hold is that no use of fExec precedes it
        early = [r for r in fexec_reads if cfg.dominates(r, inc)]
        ctx.inst(not early, "R10.3", "opcount-before-fExec-test", opstep.loc(inc),
                 "no test of fExec precedes ++nOpCount (unexecuted operations are counted)",
                 "fExec is tested at %s before ++nOpCount: operations in unexecuted branches are no longer counted" % (opstep.loc(early[0]) if early else ""))
    # the push-size limit applies to every decoded push, executed or not (like the op count)
    psz = [n for (f, n, r) in per_limit.get("MAX_SCRIPT_ELEMENT_SIZE", []) if f is opstep]
    if psz and incs:
        fexec_reads2 = [n for n in opstep.nodes() if n["k"] == "ref" and n["n"] == FX and n.get("dk") == "local"]
        early2 = [r for r in fexec_reads2 if cfg.dominates(r, psz[0])]
        nested2 = [astq.estr(c) for (c, t) in S.ast_guards(opstep, psz[0]) if any(x["k"] == "ref" and x["n"] == FX for x in walk(c))]
        ctx.inst(not early2 and not nested2, "R10.3", "push-size-before-fExec-test", opstep.loc(psz[0]),
                 "the element-size check is evaluated for every decoded push, before the executed/unexecuted test",
                 "the MAX_SCRIPT_ELEMENT_SIZE check is evaluated only for executed pushes (%s): an over-size push in an unexecuted branch is accepted" % (nested2 or "after a test of fExec"))
    adds = [n for n in opstep.nodes() if n["k"] == "cassign" and n["op"] == "+=" and is_env_field(n["lhs"], "nOpCount")]
    cmps = [n for (f, n, r) in per_limit.get("MAX_OPS_PER_SCRIPT", []) if f is opstep and not any(x is incs[0] for x in walk(n))] if incs else []
    if len(adds) != 1 or len(cmps) != 1:
        ctx.fail("R10.3", "keycount-added", opstep.loc(), "expected one `nOpCount += nKeysCount` and one later comparison, found %d / %d" % (len(adds), len(cmps)))
    else:
        ctx.inst(cfg.dominates(adds[0], cmps[0]), "R10.3", "keycount-added-before-compare", opstep.loc(adds[0]),
                 "nOpCount += <key count> dominates its comparison with MAX_OPS_PER_SCRIPT")
        g = cfg.guards_of(adds[0])
        tap = False
        for (c, t) in g:
            cn = opstep.node_by_id(c)
            names = S.compared_enumerators(cn, lambda e: is_env_field(e, "sigversion")) if cn else None
            if names == {"SigVersion::TAPSCRIPT"} and t is False:
                tap = True
        ctx.inst(tap, "R10.3", "keycount-not-in-tapscript", opstep.loc(adds[0]),
                 "the key-count addition is only reached when sigversion != TAPSCRIPT (CHECKMULTISIG is rejected there)")

    # ---- R10.4 tapscript exemptions at reachable sites
    for lname in spec["tapscript_exempt"]:
        for (f, n, r) in per_limit.get(lname, []):
            if not r:
                ctx.note("R10.4: %s at %s is not reachable from any tool entry point; not judged" % (lname, f.loc(n)))
                continue
            if f.short == "IsUnspendable":
                continue
            fal = astq.aliases(f)

            def sv(e, fal=fal):
                return any(p[-1] == "sigversion" for p in astq.paths(e, fal)) or (e.get("k") == "ref" and e["n"].startswith("sigversion"))
            exempt = False
            for (c, t) in S.guard_atoms(f, n):
                names = S.compared_enumerators(c, sv)
                if names is not None and ((t and "SigVersion::TAPSCRIPT" not in names) or (not t and names == {"SigVersion::TAPSCRIPT"})):
                    exempt = True
            fcfg = f.cfg()
            for (c, t) in fcfg.guards_of(n):
                cn = f.node_by_id(c)
                names = S.compared_enumerators(cn, sv) if cn else None
                if names is not None and ((t and "SigVersion::TAPSCRIPT" not in names) or (not t and names == {"SigVersion::TAPSCRIPT"})):
                    exempt = True
            ctx.inst(exempt, "R10.4", "tapscript-exempt:%s@%s" % (lname, f.name), f.loc(n),
                     "%s check in %s is conditioned on a non-tapscript script version" % (lname, f.name),
                     "%s is enforced in %s regardless of the script version: tapscript is not exempt" % (lname, f.name))

    # ---- R10.5 numeric operand sizes
    sw = [s for s in S.find_switches(opstep) if astq.estr(s["cond"]) == "opcode"]
    if not sw:
        raise AnalysisBroken("R10.5: opcode switch not found in the operation step")
    groups = S.case_groups(sw[0])
    nsites = 0
    for n in opstep.nodes():
        if n["k"] == "ctor" and n.get("callee") == A["numctor"] and len(n["args"]) == 3:
            g = S.group_of(groups, n)
            if g is None:
                continue
            nsites += 1
            ctx.site()
            size = astq.const_value(n["args"][2])
            is_default = n["args"][2]["k"] == "defarg"
            names = g.short_names()
            lock = set(names) <= set(spec["num_size"]["locktime_opcodes"])
            want = spec["num_size"]["locktime"] if lock else spec["num_size"]["default"]
            key = "numsize:%s:%s" % ("/".join(names[:2]), astq.estr(n["args"][0])[-24:])
            ctx.inst(size == want, "R10.5", key, opstep.loc(n),
                     "operand of %s decoded with max size %s%s" % ("/".join(names[:3]), size, " (default)" if is_default else ""),
                     "operand of %s is decoded with max size %s, consensus says %d" % ("/".join(names[:3]), size, want))
    ctx.floor("R10.5", nsites, 12, "CScriptNum(vch, minimal[, size]) constructions in consensus opcodes")
    ext = fb.fn(*A["extended"])
    inv = []
    for n in ext.nodes():
        if n["k"] == "ctor" and n.get("callee") == A["numctor"] and len(n["args"]) == 3:
            inv.append("%s size=%s" % (ext.loc(n), astq.const_value(n["args"][2])))
    ctx.extra["stepextended_numeric_sizes_inventory_only"] = inv

    # ---- R10.6 op counter reset at every script switch (helper-aware)
    from . import common
    scfg = stepper.cfg()
    sws = common.script_switches(prog, stepper)
    al_s = astq.aliases(stepper)
    resets = [n for n in common.field_writers(prog, stepper, "nOpCount")
              if (n.get("k") == "assign" and astq.const_value(n["rhs"]) == 0) or astq.is_call(n)]
    # a helper call counts as a reset only if the helper assigns the constant 0
    good_resets = []
    for n in resets:
        if astq.is_call(n):
            ok_h = False
            for g in prog.resolve(n["cid"]):
                for m in g.nodes():
                    if m.get("k") == "assign" and astq.const_value(m["rhs"]) == 0 and astq.estr(m["lhs"]).endswith("nOpCount"):
                        ok_h = True
            if ok_h:
                good_resets.append(n)
        else:
            good_resets.append(n)
    for swn in sws:
        ctx.site()
        ok = (swn in good_resets) or (bool(good_resets) and scfg.must_pass_after(swn, good_resets))
        ctx.inst(ok, "R10.6", "opcount-reset:" + astq.estr(swn)[:50], stepper.loc(swn),
                 "every path after the script switch resets nOpCount to 0 before returning",
                 "after the script switch `%s` the stepper can return without resetting nOpCount: the next script inherits the previous script's operation count" % astq.estr(swn)[:60])
    ctx.floor("R10.6", len(sws), 1, "script switches in the session stepper")


MUTANTS = [
    dict(name="data-push-returns-before-the-size-test", file="script/interpreter.cpp", find="                pushstack(stack, vchPushValue);\n", replace="                pushstack(stack, vchPushValue);\n                return true;\n", expect=["R10.9:size-test-after-every-growth"]),
    dict(name="switch-script-size-unchecked", file="debugger/interpreter.cpp", find="        env.altstack.clear(); // every script starts with an empty alt stack\n        if ((env.sigversion == SigVersion::BASE || env.sigversion == SigVersion::WITNESS_V0) && script.size() > MAX_SCRIPT_SIZE) return set_error(serror, SCRIPT_ERR_SCRIPT_SIZE);\n", replace="        env.altstack.clear(); // every script starts with an empty alt stack\n", expect=["R10.8:script-size-at-switch"]),
    dict(name="witness-item-size-unchecked", file="instance.cpp", find="                if (item.size() > MAX_SCRIPT_ELEMENT_SIZE) {", replace="                if (item.size() > 0xffffff) {", expect=["R10.8:initial-witness-stack:MAX_SCRIPT_ELEMENT_SIZE"]),
    dict(name="tapscript-initial-stack-unchecked", file="instance.cpp", find="            if (sigver == SigVersion::TAPSCRIPT && stack.size() > MAX_STACK_SIZE) {", replace="            if (false) {", expect=["R10.8:initial-witness-stack:MAX_STACK_SIZE"]),
    dict(name="push-size-only-when-executed", file="script/interpreter.cpp", find="            if (vchPushValue.size() > MAX_SCRIPT_ELEMENT_SIZE)\n                return set_error(serror, SCRIPT_ERR_PUSH_SIZE);\n", replace="            if (fExec && vchPushValue.size() > MAX_SCRIPT_ELEMENT_SIZE)\n                return set_error(serror, SCRIPT_ERR_PUSH_SIZE);\n", expect=["R10.3:push-size-before-fExec-test"]),
    dict(name="altstack-not-counted", file="script/interpreter.cpp", find="if (stack.size() + altstack.size() > MAX_STACK_SIZE)\n                return set_error(serror, SCRIPT_ERR_STACK_SIZE);\n        }\n    }",
         replace="if (stack.size() > MAX_STACK_SIZE)\n                return set_error(serror, SCRIPT_ERR_STACK_SIZE);\n        }\n    }", expect=["R10.7:quantity=MAX_STACK_SIZE"]),
    dict(name="push-size-ge", file="script/interpreter.cpp", find="vchPushValue.size() > MAX_SCRIPT_ELEMENT_SIZE",
         replace="vchPushValue.size() >= MAX_SCRIPT_ELEMENT_SIZE", expect=["R10.2:cmp=MAX_SCRIPT_ELEMENT_SIZE@StepScript"]),
    dict(name="opcount-ge", file="script/interpreter.cpp", find="++nOpCount > MAX_OPS_PER_SCRIPT",
         replace="++nOpCount >= MAX_OPS_PER_SCRIPT", expect=["R10.2:cmp=MAX_OPS_PER_SCRIPT@StepScript"]),
    dict(name="keycount-ge", file="script/interpreter.cpp", find="nKeysCount > MAX_PUBKEYS_PER_MULTISIG",
         replace="nKeysCount >= MAX_PUBKEYS_PER_MULTISIG", expect=["R10.2:cmp=MAX_PUBKEYS_PER_MULTISIG@StepScript"]),
    dict(name="stack-size-ge", file="script/interpreter.cpp", find="if (stack.size() + altstack.size() > MAX_STACK_SIZE)\n                return set_error(serror, SCRIPT_ERR_STACK_SIZE);\n        }\n    }",
         replace="if (stack.size() + altstack.size() >= MAX_STACK_SIZE)\n                return set_error(serror, SCRIPT_ERR_STACK_SIZE);\n        }\n    }", expect=["R10.2:cmp=MAX_STACK_SIZE@StepScript"]),
    dict(name="stack-size-plus-one", file="script/interpreter.cpp", find="if (stack.size() + altstack.size() > MAX_STACK_SIZE)\n                return set_error(serror, SCRIPT_ERR_STACK_SIZE);\n        }\n    }",
         replace="if (stack.size() + altstack.size() > MAX_STACK_SIZE + 1)\n                return set_error(serror, SCRIPT_ERR_STACK_SIZE);\n        }\n    }", expect=["R10.2:cmp=MAX_STACK_SIZE@StepScript"]),
    dict(name="const-ops-200", file="script/script.h", find="MAX_OPS_PER_SCRIPT = 201;", replace="MAX_OPS_PER_SCRIPT = 200;",
         expect=["R10.1:const=MAX_OPS_PER_SCRIPT"]),
    dict(name="opcount-all-sigversions", file="script/interpreter.cpp",
         find="            if (sigversion == SigVersion::BASE || sigversion == SigVersion::WITNESS_V0) {\n                // Note how OP_RESERVED",
         replace="            {\n                // Note how OP_RESERVED", expect=["R10.3:opcount-sigversion-guard"]),
    dict(name="opcount-only-when-executed", file="script/interpreter.cpp", find="if (opcode > OP_16 && ++nOpCount > MAX_OPS_PER_SCRIPT)",
         replace="if (fExec && opcode > OP_16 && ++nOpCount > MAX_OPS_PER_SCRIPT)", expect=["R10.3:opcount-counts-every-op>OP_16", "R10.3:opcount-before-fExec-test"]),
    dict(name="cltv-4-bytes", file="script/interpreter.cpp", find="const CScriptNum nLockTime(stacktop(-1), fRequireMinimal, 5);",
         replace="const CScriptNum nLockTime(stacktop(-1), fRequireMinimal, 4);", expect=["R10.5:numsize:OP_CHECKLOCKTIMEVERIFY"]),
    dict(name="within-5-bytes", file="script/interpreter.cpp", find="CScriptNum bn1(stacktop(-3), fRequireMinimal);",
         replace="CScriptNum bn1(stacktop(-3), fRequireMinimal, 5);", expect=["R10.5:numsize:OP_WITHIN"]),
    dict(name="drop-stack-size-check", file="script/interpreter.cpp",
         find="            if (stack.size() + altstack.size() > MAX_STACK_SIZE)\n                return set_error(serror, SCRIPT_ERR_STACK_SIZE);\n        }\n    }",
         replace="        }\n    }", expect=["R10.2b:enforced=MAX_STACK_SIZE"]),
    dict(name="keycount-after-compare", file="script/interpreter.cpp",
         find="                    nOpCount += nKeysCount;\n                    if (nOpCount > MAX_OPS_PER_SCRIPT)\n                        return set_error(serror, SCRIPT_ERR_OP_COUNT);",
         replace="                    if (nOpCount > MAX_OPS_PER_SCRIPT)\n                        return set_error(serror, SCRIPT_ERR_OP_COUNT);\n                    nOpCount += nKeysCount;",
         expect=["R10.3:keycount-added-before-compare"]),
    dict(name="drop-opcount-reset-at-p2sh-switch", file="debugger/interpreter.cpp",
         find="            env.curr_op_seq++;\n            env.nOpCount = 0; // reset to avoid hitting limit prematurely!\n            env.opcode_pos = 0;\n            env.altstack.clear();",
         replace="            env.curr_op_seq++;\n            env.opcode_pos = 0;\n            env.altstack.clear();", expect=["R10.6:opcount-reset"]),
    dict(name="script-size-for-tapscript-again", file="debugger/interpreter.cpp",
         find="if ((sigversion == SigVersion::BASE || sigversion == SigVersion::WITNESS_V0) && script.size() > MAX_SCRIPT_SIZE) {\n        set_error(serror, SCRIPT_ERR_SCRIPT_SIZE);\n        operational",
         replace="if (script.size() > MAX_SCRIPT_SIZE) {\n        set_error(serror, SCRIPT_ERR_SCRIPT_SIZE);\n        operational", expect=["R10.4:tapscript-exempt:MAX_SCRIPT_SIZE@InterpreterEnv"]),
    dict(name="throw-removed-in-scriptnum", file="script/script.h",
         find="        if (vch.size() > nMaxNumSize) {\n            throw scriptnum_error(\"script number overflow\");\n        }\n",
         replace="", expect=["R10.2b:enforced=nMaxNumSize"]),
]


def AUTO_MUTANTS(ctx):
    """for every comparison against a limit constant: `>` -> `>=`   (enumerated from the fact base)"""
    fb = ctx.facts
    spec = json.load(open(os.path.join(VERIF, "spec/limits.json")))
    LIM = spec["limits"]
    out = []
    seen = set()
    for f in fb.funcs.values():
        for n in f.nodes():
            cp = cmp_parts(n)
            if not cp or n["k"] != "bin":
                continue
            op, a, b = cp
            if op != ">" or not limit_refs(b, LIM) or n.get("mac"):
                continue
            fl = n.get("f", f.file)
            key = (fl, n["l"], n["c"])
            if key in seen:
                continue
            seen.add(key)
            out.append(dict(name="auto:ge:%s@%s:%d" % (limit_refs(b, LIM)[0], f.short, n["l"]), file=fl, edit=(n["l"], n["c"], ">", ">="), expect=["R10.2:cmp="]))
    return out
