"""C09 - flag modification is exact and verification flags only ever restrict (DESIGN.md section 4, C09)."""
from .. import astq, structure as S, purity
from ..facts import AnalysisBroken, walk

EXPLANATION = (
    "R09.1 table agreement: the svf name table has exactly one row per SCRIPT_VERIFY_* enumerator (NONE/END_MARKER excluded), "
    "each row's literal is its enumerator's name, every bit of STANDARD_SCRIPT_VERIFY_FLAGS is in the table (svf_string would "
    "not terminate otherwise), each flag is a distinct single bit, and the name lookup compares whole strings. R09.2 parser "
    "polarity and rejection: the sign variable defined by buf[0]=='+' selects |= on its true edge and &=~ on its false edge, "
    "both malformed-input edges reach exit(1), --modify-flags starts from the standard set. R09.3 monotonicity = polarity of "
    "every read of the flag word in code a step can reach (region-purity analysis): each read is F1 a positive conjunct of an "
    "if whose then-region cannot change observable state and, if it can fall through, has no else; F2 `if (!(flags&X)) break;` "
    "whose flag-off arm has no failing exit and whose remainder is check-only; F3 the definition of fRequireMinimal whose every "
    "use is again an F1 conjunct or the fRequireMinimal argument of an analysed function; F4 the definition of is_p2sh, used "
    "only as the head of the script-end continuation, which must first pass the conditional-balance check that the flag-off "
    "path applies; F5 passed on unchanged to an analysed function. Any other use of the flag word is reported. The assumption "
    "'a check-only region cannot make a later operation succeed' is what links this to the behavioural statement.")
TRUSTED = ["clang 14 parser/Sema/CFG", "/verif extractor, write-set engine (purity)"]
ASSUMPTIONS = ["a region without observable writes cannot make a later operation succeed",
               "flag words are only held in variables/fields/parameters named flags / flags_in (all `&` tests against SCRIPT_VERIFY_* enumerators are enumerated independently of the name)"]
DECLINED = []

DISPLAY = {"main", "print_dualstack"}


def flag_enumerators(n):
    return [x for x in walk(n) if x["k"] == "ref" and x.get("dk") == "enumc" and x.get("enum", "").endswith("") and x["n"].startswith("SCRIPT_VERIFY_")]


def run(ctx, anchors=None):
    fb, prog = ctx.facts, ctx.prog
    A = anchors or {"table": "svf", "lookup": "svf_get_flag", "parser": "svf_parse_flags", "tostring": "svf_string",
                    "standard": "STANDARD_SCRIPT_VERIFY_FLAGS",
                    "opstep": ("StepScript", "script/interpreter.cpp"), "stepper": ("StepScript", "debugger/interpreter.cpp"),
                    "envctor": "InterpreterEnv::InterpreterEnv"}
    ctx.rule("R09.1", "svf table <-> SCRIPT_VERIFY_* enumerators: bijection, names, single bits, standard set covered, exact lookup")
    ctx.rule("R09.2", "svf_parse_flags: '+' adds (|=), '-' removes (&= ~), malformed input exits 1; --modify-flags starts from the standard set")
    ctx.rule("R09.3", "every read of the verification flags in step-reachable code is restrictive (F1..F5)")

    # ------------------------------------------------------------ R09.1
    enum = None
    for e in fb.enums:
        if any(c["n"] == "SCRIPT_VERIFY_P2SH" for c in e["consts"]):
            enum = e
    if enum is None:
        raise AnalysisBroken("R09.1: SCRIPT_VERIFY_* enum not found")
    ev = {c["n"]: c["v"] for c in enum["consts"]}
    real = {n: v for n, v in ev.items() if n not in ("SCRIPT_VERIFY_NONE", "SCRIPT_VERIFY_END_MARKER")}
    table = fb.var(A["table"])
    rows = []
    init = table.get("init")
    for n in walk(init):
        if n["k"] == "ctor" and (n.get("callee") or "").endswith("script_verify_flag") and len(n["args"]) == 2 and not n.get("copy"):
            lit = [x for x in walk(n["args"][0]) if x["k"] == "str"]
            en = [x for x in walk(n["args"][1]) if x["k"] == "ref" and x.get("dk") == "enumc"]
            rows.append((lit[0]["s"] if lit else None, en[0]["n"] if en else None, n))
    ctx.floor("R09.1", len(rows), 15, "rows of the svf table")
    seen = {}
    for (lit, en, n) in rows:
        ctx.site()
        loc = "%s:%d" % (n.get("f", table["file"]), n.get("l", table["line"]))
        ok = lit is not None and en == "SCRIPT_VERIFY_" + lit
        ctx.inst(ok, "R09.1", "row=" + str(lit), loc, "row '%s' is bound to %s" % (lit, en),
                 "row '%s' of the flag name table is bound to %s (a name that sets a different flag)" % (lit, en))
        if en in seen:
            ctx.fail("R09.1", "duplicate=" + str(en), loc, "%s appears in two rows" % en)
        seen[en] = lit
    for en in sorted(real):
        if en not in seen:
            ctx.fail("R09.1", "missing=" + en, "%s:%d" % (table["file"], table["line"]), "%s has no row in the flag name table (cannot be added/removed by name)" % en)
    for en, v in sorted(real.items()):
        ctx.inst(v > 0 and (v & (v - 1)) == 0, "R09.1", "singlebit=" + en, "%s:%d" % (enum["file"], enum["line"]), "%s is a single bit (0x%x)" % (en, v))
    vals = list(real.values())
    ctx.inst(len(set(vals)) == len(vals), "R09.1", "distinct-bits", "%s:%d" % (enum["file"], enum["line"]), "all flag bits are distinct")
    std = fb.var(A["standard"])
    sv = std.get("value")
    if sv is None:
        raise AnalysisBroken("R09.1: STANDARD_SCRIPT_VERIFY_FLAGS not constant-evaluated")
    tabbits = 0
    for en in seen:
        if en in ev:
            tabbits |= ev[en]
    ctx.inst(sv & ~tabbits == 0, "R09.1", "standard-subset-of-table", "%s:%d" % (std["file"], std["line"]),
             "every bit of the standard set (0x%x) has a row (svf_string terminates)" % sv,
             "standard flag bits 0x%x have no row: svf_string() loops forever on them" % (sv & ~tabbits))
    ctx.extra["standard_flags_value"] = sv
    # exact lookup
    lookup = fb.fn(A["lookup"])
    eqs = [n for n in lookup.nodes() if (n["k"] == "opcall" and n["op"] == "==") or (n["k"] == "call" and n.get("n") == "strcmp")]
    prefixy = [n for n in lookup.nodes() if astq.is_call(n) and (n.get("n") in ("strncmp", "strncasecmp", "strcasecmp", "compare", "find", "rfind", "starts_with", "memcmp", "substr"))]
    ctx.inst(bool(eqs) and not prefixy, "R09.1", "exact-name-lookup", lookup.loc(),
             "the name lookup compares whole strings (operator== / strcmp)",
             "the name lookup uses %s: names that merely start with / contain a table entry are accepted" % (prefixy[0].get("n") if prefixy else "no equality"))
    # svf_string walks the same table and clears exactly the reported bit
    tostr = fb.fn(A["tostring"])
    uses_table = any(n["k"] == "ref" and n["n"] == A["table"] for n in tostr.nodes())
    ctx.inst(uses_table, "R09.1", "listing-uses-table", tostr.loc(), "svf_string lists from the same table")

    # ------------------------------------------------------------ R09.2
    parser = fb.fn(A["parser"])
    pcfg = parser.cfg()

    from . import common as _cm
    _cm.require_names(parser, ["buf", "in_flags"], "R09.2")
    adds = [n for n in parser.nodes() if n["k"] == "cassign"]
    sign_defs = []
    for n in parser.nodes():
        if n["k"] == "assign" and n["rhs"].get("k") == "bin" and n["rhs"]["op"] == "==" and astq.const_value(n["rhs"]["rhs"]) == 43:
            sign_defs.append(n)
    if len(sign_defs) != 1:
        ctx.fail("R09.2", "sign-definition", parser.loc(), "expected one definition `<var> = (buf[0] == '+')`, found %d" % len(sign_defs))
    else:
        var = astq.estr(sign_defs[0]["lhs"])
        ifs = [n for n in parser.nodes() if n["k"] == "if" and astq.estr(n["cond"]) == var]
        okpol = False
        if len(ifs) == 1 and ifs[0].get("else") is not None:
            t = [x for x in walk(ifs[0]["then"]) if x["k"] == "cassign"]
            e = [x for x in walk(ifs[0]["else"]) if x["k"] == "cassign"]
            if len(t) == 1 and len(e) == 1:
                tl, el = astq.estr(t[0]["lhs"]), astq.estr(e[0]["lhs"])
                okpol = (t[0]["op"] == "|=" and e[0]["op"] == "&=" and tl == el and astq.estr(e[0]["rhs"]).startswith("~")
                         and astq.estr(e[0]["rhs"])[1:] == astq.estr(t[0]["rhs"]))
                # the modified word is what is returned
                rets = [astq.estr(r.get("e")) for r in parser.nodes() if r["k"] == "return"]
                okpol = okpol and rets == [tl]
        ctx.inst(okpol, "R09.2", "polarity", parser.loc(ifs[0]) if ifs else parser.loc(),
                 "'+' selects `flags |= f`, '-' selects `flags &= ~f`, and the modified word is returned",
                 "the +/- polarity of svf_parse_flags is not (|= on '+', &= ~ on '-') over the returned word")
    exits = [n for n in parser.nodes() if n["k"] == "call" and n.get("n") == "exit" and n["args"] and astq.const_value(n["args"][0]) == 1]
    nosign = unknown = False
    for x in exits:
        gs = [astq.estr(c) for (c, t) in S.ast_guards(parser, x) if t]
        if any("!= 43" in g for g in gs) and any("!= 45" in g for g in gs):
            nosign = True      # neither '+' nor '-' (one `&&` condition or nested ifs)
        for (c, t) in S.ast_guards(parser, x):
            # `if (!f)` with f the looked-up flag word (hoisted locals are expanded by ast_guards: `!svf_get_flag(buf)`)
            a_, neg = S.strip_not(c)
            if t and neg and a_ is not None and (a_.get("k") == "ref" or (a_.get("k") == "call" and a_.get("cid") and prog.resolve(a_["cid"]))):
                unknown = True
    ctx.inst(nosign, "R09.2", "reject-missing-sign", parser.loc(), "an entry without + or - reaches exit(1)")
    ctx.inst(unknown, "R09.2", "reject-unknown-name", parser.loc(), "an unknown flag name (lookup returned 0) reaches exit(1)")
    from . import common
    main = common.driver_of(fb, prog, "btcdeb.cpp", "setup_environment")
    common.require_names(main, ["flags"], "R09.2")
    fdecl = [d for n in main.nodes() if n["k"] == "decl" for d in n["decls"] if d["n"] == "flags"]
    ok_init = bool(fdecl) and fdecl[0].get("init") is not None and astq.estr(fdecl[0]["init"]) == A["standard"]
    ctx.inst(ok_init, "R09.2", "starts-from-standard", main.loc(), "`flags` in main starts as STANDARD_SCRIPT_VERIFY_FLAGS")
    # every write of `flags` in the driver: plain and compound assignments, ++/--, and handing its address / a non-const reference
    mods = [n for n in main.nodes() if n["k"] in ("assign", "cassign") and astq.estr(n["lhs"]) == "flags"]
    mods += [n for n in main.nodes() if n["k"] == "un" and n.get("op") in ("++", "--", "&") and astq.estr(n.get("e")) == "flags"]
    for n in main.nodes():
        if astq.is_call(n) and n.get("pk"):
            for i_, a_ in enumerate(n.get("args", [])):
                if a_ is not None and i_ < len(n["pk"]) and n["pk"][i_] == "r" and astq.estr(a_) == "flags":
                    mods.append(n)
    okm = len(mods) == 1 and mods[0]["k"] == "assign" and mods[0]["rhs"].get("k") == "call" and mods[0]["rhs"].get("n") == A["parser"] and astq.estr(mods[0]["rhs"]["args"][0]) == "flags"
    ctx.inst(okm, "R09.2", "modified-only-by-parser", main.loc(mods[-1]) if mods else main.loc(), "`flags` is modified only by svf_parse_flags(flags, <option>)",
             "`flags` is written %d time(s) in the driver (%s): the set handed to the session is not exactly what --modify-flags asked for" % (len(mods), "; ".join(astq.estr(m_)[:50] for m_ in mods[:3])))
    dflt = [n for n in main.nodes() if n["k"] == "call" and n.get("n") == A["tostring"] and n["args"] and astq.estr(n["args"][0]) == A["standard"]]
    ctx.inst(bool(dflt), "R09.2", "default-flags-lists-standard", main.loc(dflt[0]) if dflt else main.loc(), "--default-flags prints svf_string(STANDARD_SCRIPT_VERIFY_FLAGS)")
    setup_calls = [n for n in main.nodes() if n["k"] == "mcall" and n.get("n") == "setup_environment"]
    ctx.inst(len(setup_calls) == 1 and astq.estr(setup_calls[0]["args"][0]) == "flags", "R09.2", "flags-reach-session", main.loc(), "the session is set up with the modified `flags`")

    # ------------------------------------------------------------ R09.3
    opstep = fb.fn(*A["opstep"])
    stepper = fb.fn(*A["stepper"])
    envctor = fb.fn(A["envctor"])
    reach = prog.reachable([opstep, stepper, envctor])
    nreads = 0
    derived_defs = {"fRequireMinimal": [], "is_p2sh": []}
    for fid in sorted(reach):
        f = fb.funcs[fid]
        if f.short in DISPLAY:
            continue
        for n in f.nodes():
            if not (n["k"] == "bin" and n["op"] == "&" and flag_enumerators(n)):
                continue
            nreads += 1
            ctx.site()
            flagnames = "|".join(sorted(x["n"].replace("SCRIPT_VERIFY_", "") for x in flag_enumerators(n)))
            key = "%s:%s" % (f.name, flagnames)
            cls, why = classify_read(ctx, prog, f, n, derived_defs)
            if cls:
                ctx.ok("R09.3", "read=" + key, f.loc(n), "%s: %s" % (cls, why))
            else:
                ctx.fail("R09.3", "read=" + key, f.loc(n), "flag test `%s` in %s is not restrictive: %s" % (astq.estr(n)[:60], f.name, why))
    ctx.floor("R09.3", nreads, 15, "flag reads in step-reachable code")
    # F3 uses of fRequireMinimal
    nuse = 0
    for fid in sorted(reach):
        f = fb.funcs[fid]
        if f.short in DISPLAY:
            continue
        al = astq.aliases(f)
        for n in f.nodes():
            isuse = (n["k"] == "ref" and n["n"] == "fRequireMinimal" and n.get("dk") in ("parm", "local")) or (n["k"] == "mem" and n["n"] == "fRequireMinimal")
            if not isuse:
                continue
            par = f.parent(n)
            # definitions / alias declarations
            if par is not None and par.get("k") == "assign" and par["lhs"] is n:
                continue
            if n["k"] == "mem" and any(a.get("k") == "decl" for a in [par] if a):
                continue
            anc_decl = [a for a in f.ancestors(n) if a.get("k") == "decl"]
            if n["k"] == "mem" and anc_decl and any(d.get("isref") for d in anc_decl[0]["decls"]):
                continue
            nuse += 1
            ctx.site()
            cls, why = classify_bool_use(ctx, prog, f, n, "fRequireMinimal")
            key = "%s@%s" % (f.name, astq.estr(par)[:40] if par is not None else "?")
            if cls:
                ctx.ok("R09.3", "minimal-use=" + key, f.loc(n), "%s: %s" % (cls, why))
            else:
                ctx.fail("R09.3", "minimal-use=" + key, f.loc(n), "use of fRequireMinimal (derived from MINIMALDATA) is not restrictive: %s" % why)
    ctx.floor("R09.3", nuse, 12, "uses of fRequireMinimal")
    # F4 uses of is_p2sh
    for fid in sorted(reach):
        f = fb.funcs[fid]
        if f.short in DISPLAY:
            continue
        for n in f.nodes():
            if not (n["k"] in ("mem", "ref") and n["n"] == "is_p2sh"):
                continue
            par = f.parent(n)
            if par is not None and par.get("k") == "assign" and par["lhs"] is n:
                continue
            anc_decl = [a for a in f.ancestors(n) if a.get("k") == "decl"]
            if anc_decl and any(d.get("isref") for d in anc_decl[0]["decls"]):
                continue
            ctx.site()
            if par is not None and par.get("k") == "if" and par["cond"] is n:
                # F4: the P2SH continuation (adds a script). The flag-off path ends the script with the
                # conditional-balance check; the flag-on path must apply it too before continuing.
                then = par["then"]
                from . import common
                sw = [x for x in common.script_switches(prog, f) if S.contains(then, x)]
                if not sw:
                    muts = [m for m in purity.mutations(prog, f, [then]) if "p2shstack" not in m[1]]
                    ctx.inst(not muts, "R09.3", "p2sh-bookkeeping@%s" % f.name, f.loc(n),
                             "F4: this is_p2sh branch only records the stack for the later continuation",
                             "an is_p2sh branch that is not the continuation changes state: %s" % (muts[0][1] if muts else ""))
                    continue
                bal = balance_checks(f)
                cfg = f.cfg()
                okb = bool(sw) and all(any(cfg.dominates(b, s) for b in bal) for s in sw)
                ctx.inst(okb, "R09.3", "p2sh-continuation-keeps-balance-check", f.loc(n),
                         "F4: the P2SH continuation is entered only after the conditional-balance check that the flag-off path applies",
                         "F4: with P2SH set the script-end check `vfExec.empty()` is skipped before the redeem script is entered: a spend can succeed "
                         "under flags+P2SH and fail (unbalanced conditional) without it")
            elif par is not None and par.get("k") == "if":
                ctx.ok("R09.3", "p2sh-use=%s:if" % f.name, f.loc(n), "F4: conjunct of a branch head")
            else:
                ctx.fail("R09.3", "p2sh-use=%s:%s" % (f.name, astq.estr(par)[:30] if par is not None else "?"), f.loc(n), "is_p2sh is used other than as a branch head")
    # every definition of is_p2sh carries the flag (a definition that lost its flag read is not seen by the read classifier)
    for fid in sorted(reach):
        f = fb.funcs[fid]
        for n in f.nodes():
            if n["k"] == "assign" and astq.estr(n["lhs"]).split(".")[-1] == "is_p2sh" and astq.const_value(n["rhs"]) != 0:
                cj = [astq.estr(c) for c in S.conjuncts(astq.inline_pure(prog.resolve, astq.expand(f, n["rhs"])))]
                ctx.site()
                ctx.inst(any("SCRIPT_VERIFY_P2SH" in c and "flags" in c and not c.startswith("!") for c in cj), "R09.3", "p2sh-definition-has-flag@" + f.name, f.loc(n),
                         "F4: is_p2sh is a conjunction with the P2SH flag as positive conjunct",
                         "F4: is_p2sh is defined as `%s` without the SCRIPT_VERIFY_P2SH conjunct: the redeem script runs whether or not the flag is set" % " && ".join(cj)[:100])
    ctx.extra["flag_reads"] = nreads
    ctx.extra["fRequireMinimal_uses"] = nuse


def balance_checks(f):
    """conditions testing vfExec.empty() whose failing edge rejects"""
    out = []
    for n in f.nodes():
        if n["k"] == "mcall" and n.get("n") == "empty" and "vfExec" in astq.estr(n.get("obj")):
            out.append(n)
    return out


def region_of_if_then(ifn):
    return [ifn["then"]]


def has_reject(nodes_roots):
    for r in nodes_roots:
        for n in walk(r):
            if n["k"] == "throw":
                return True
            if n["k"] == "call" and n.get("n") == "set_error":
                return True
            if n["k"] == "return" and astq.const_value(n.get("e")) == 0:
                return True
    return False


def positive_conjunct_if(func, n):
    """n (or n wrapped in `!= 0`/cast/paren) is a positive top-level conjunct of an if condition -> that if"""
    cur = n
    par = func.parent(cur)
    while par is not None:
        k = par.get("k")
        if k == "bin" and par["op"] == "!=" and astq.const_value(par["rhs"]) == 0 and par["lhs"] is cur:
            cur, par = par, func.parent(par)
            continue
        if k == "cast":
            cur, par = par, func.parent(par)
            continue
        if k == "bin" and par["op"] in ("&&", "||"):
            # a positive (un-negated) occurrence in a condition built of && and || is monotone: setting the flag can only make the
            # condition true more often - `tapscript || (v0 && (flags & F))` restricts exactly like `v0 && (flags & F)`
            cur, par = par, func.parent(par)
            continue
        if k == "paren":
            cur, par = par, func.parent(par)
            continue
        if k == "if" and par["cond"] is cur:
            return par
        return None
    return None


def negated_whole_if(func, n):
    cur = n
    par = func.parent(cur)
    if par is not None and par.get("k") == "un" and par["op"] == "!":
        gp = func.parent(par)
        if gp is not None and gp.get("k") == "if" and gp["cond"] is par:
            return gp
    return None


def classify_read(ctx, prog, f, n, derived_defs):
    # F1
    ifn = positive_conjunct_if(f, n)
    if ifn is not None:
        muts = purity.mutations(prog, f, [ifn["then"]])
        if muts:
            return None, "its guarded region changes state (%s at %s): with the flag set a later operation can behave differently" % (muts[0][1], f.loc(muts[0][0]))
        if S.terminates(ifn["then"]) and has_reject([ifn["then"]]):
            # every way out of the then-region is a failure (or leaves the case): restrictive whatever follows
            only_fail = all_exits_fail(ifn["then"])
            if only_fail:
                return "F1", "positive conjunct; then-region is check-only and always fails"
        if ifn.get("else") is not None:
            return None, "the then-region can fall through and there is an else-region that only runs with the flag clear"
        if not has_reject([ifn["then"]]):
            return None, "the region guarded by the flag has no failing exit (the flag does not restrict anything here)"
        return "F1", "positive conjunct; then-region is check-only with failing exits, no else"
    # F2
    ifn = negated_whole_if(f, n)
    if ifn is not None:
        then = ifn["then"]
        stm = then["ch"] if then.get("k") == "block" else [then]
        stm = [s for s in stm if s is not None]
        if has_reject([then]):
            return None, "the flag-clear arm contains a failing exit (%s): setting the flag can turn that failure into success" % f.loc([x for x in walk(then) if x["k"] in ("call", "return", "throw")][0])
        if not (stm and stm[-1].get("k") == "break" and not purity.mutations(prog, f, [then])):
            return None, "the flag-clear arm is not a plain `break`"
        if ifn.get("else") is not None:
            return None, "unexpected else"
        # remainder of the case group
        sw = [a for a in f.ancestors(ifn) if a.get("k") == "switch"]
        if not sw:
            return None, "not inside a case"
        g = S.group_of(S.case_groups(sw[0]), ifn)
        if g is None:
            return None, "case group not found"
        rest = []
        started = False
        for s in g.stmts:
            for x in walk(s):
                if x is ifn:
                    started = True
            if started:
                rest.append(s)
        muts = [m for m in purity.mutations(prog, f, rest) if not S.contains(ifn, m[0])]
        if muts:
            return None, "with the flag set the remainder of the case changes state (%s at %s)" % (muts[0][1], f.loc(muts[0][0]))
        return "F2", "flag clear = NOP (break); flag set = check-only remainder (NOP or fail)"
    # F3 / F4 definitions
    par = f.parent(n)
    chain = [par]
    for a in f.ancestors(n):
        chain.append(a)
        if a.get("k") in ("assign", "block", "if"):
            break
    asg = [a for a in chain if a is not None and a.get("k") == "assign"]
    if asg:
        lhs = astq.estr(asg[0]["lhs"]).split(".")[-1]
        if lhs == "fRequireMinimal":
            derived_defs[lhs].append((f, asg[0]))
            return "F3", "definition of fRequireMinimal (uses classified separately)"
        if lhs == "is_p2sh":
            # flag must be a positive conjunct of the defining conjunction
            cj = S.conjuncts(asg[0]["rhs"])
            if any(S.contains(c, n) and S.strip_not(c)[1] is False for c in cj):
                derived_defs[lhs].append((f, asg[0]))
                return "F4", "definition of is_p2sh as a conjunction containing the flag (uses classified separately)"
            return None, "is_p2sh is not defined as a conjunction with the flag as a positive conjunct"
    # constructor initialiser of fRequireMinimal
    for i in f.d.get("inits", []):
        if i.get("e") is not None and S.contains(i["e"], n):
            if i.get("field") == "fRequireMinimal":
                return "F3", "constructor initialiser of fRequireMinimal"
            return None, "initialises field %s" % i.get("field")
    # F5 a hoisted boolean: `const bool f = (flags & X) != 0;` (the flag a positive conjunct of the initialiser), never written
    # again; every use of f must then be restrictive in the way a direct flag test has to be
    def pos_conj_of(root, node):
        cur = node
        par_ = f.parent(cur)
        while par_ is not None and cur is not root:
            k_ = par_.get("k")
            if (k_ == "bin" and par_["op"] == "!=" and astq.const_value(par_["rhs"]) == 0 and par_["lhs"] is cur) or k_ == "cast" or (k_ == "bin" and par_["op"] == "&&"):
                cur, par_ = par_, f.parent(par_)
                continue
            return False
        return cur is root
    for dn in f.nodes():
        if dn["k"] != "decl":
            continue
        for d in dn["decls"]:
            init = d.get("init")
            if init is None or not S.contains(init, n):
                continue
            if astq.single_defs(f).get(d.get("d")) is None or (d.get("ct") or d.get("ty") or "") not in ("bool", "const bool"):
                return None, "stored in the local %s (not a write-once boolean)" % d["n"]
            if not pos_conj_of(init, n):
                return None, "the flag is not a positive conjunct of the initialiser of %s" % d["n"]
            uses = [u for u in f.nodes() if u["k"] == "ref" and u.get("d") == d.get("d") and u.get("dk") == "local"]
            if not uses:
                return None, "the local %s is never used" % d["n"]
            for u in uses:
                cls, why = classify_bool_use(ctx, prog, f, u, d["n"])
                if not cls:
                    return None, "its hoisted copy %s is %s" % (d["n"], why)
            return "F5", "hoisted into the write-once boolean %s whose %d use(s) are positive conjuncts of check-only failing regions" % (d["n"], len(uses))
    # F6 a predicate helper: the function is a single `return E;` with the flag a positive conjunct of E; every call of it is
    # judged as if the flag test stood there
    body = f.body.get("ch", []) if f.body is not None and f.body.get("k") == "block" else []
    body = [b for b in body if b is not None and b.get("k") != "null_stmt"]
    if len(body) == 1 and body[0].get("k") == "return" and body[0].get("e") is not None and S.contains(body[0]["e"], n):
        root = body[0]["e"]
        while root is not None and root.get("k") == "cast":
            root = root["e"]
        if pos_conj_of(root, n) or pos_conj_of(body[0]["e"], n):
            sites = [(g, c) for g in prog.facts.funcs.values() if g.body is not None for c in g.nodes() if c["k"] == "call" and c.get("cid") and f in prog.resolve(c["cid"])]
            if not sites:
                return None, "predicate helper %s is never called" % f.name
            for (g, c) in sites:
                cls, why = classify_read(ctx, prog, g, c, derived_defs)
                if not cls:
                    return None, "predicate helper %s is used in %s where %s" % (f.name, g.name, why)
            return "F6", "positive conjunct of the predicate helper %s, each of whose %d call(s) is restrictive" % (f.name, len(sites))
    return None, "the test is neither an if-conjunct, a negated NOP guard, nor a recognised derived definition"


def all_exits_fail(region):
    """structurally: the region's last statement chain ends in return set_error / return false / throw"""
    k = region.get("k")
    if k == "block":
        ch = [c for c in region["ch"] if c is not None]
        return bool(ch) and all_exits_fail(ch[-1])
    if k == "return":
        e = region.get("e")
        return e is not None and (astq.const_value(e) == 0 or (e.get("k") == "call" and e.get("n") == "set_error"))
    if k == "throw":
        return True
    if k == "if":
        return region.get("else") is not None and all_exits_fail(region["then"]) and all_exits_fail(region["else"])
    return False


def classify_bool_use(ctx, prog, f, n, name):
    par = f.parent(n)
    # argument of a call: parameter must be named like the flag and the callee analysed
    anc = par
    cur = n
    while anc is not None and anc.get("k") in ("cast",):
        cur, anc = anc, f.parent(anc)
    if anc is not None and astq.is_call(anc):
        obj, args = astq.call_args(anc)
        for i, a in enumerate(args):
            if a is cur:
                targets = prog.resolve(anc.get("cid")) if anc.get("cid") else []
                if not targets:
                    return None, "passed to %s which is not analysed" % anc.get("callee")
                g = targets[0]
                if i < len(g.params) and g.params[i]["n"] == name:
                    return "F3", "passed on as the %s parameter of %s" % (name, g.name)
                if i < len(g.params):
                    # parameter with another name: its uses in g must be restrictive too
                    return None, "bound to parameter %s of %s" % (g.params[i]["n"], g.name)
    ifn = positive_conjunct_if(f, n)
    if ifn is not None:
        muts = purity.mutations(prog, f, [ifn["then"]])
        if muts:
            return None, "its guarded region changes state (%s)" % muts[0][1]
        if not has_reject([ifn["then"]]):
            return None, "guarded region has no failing exit"
        if ifn.get("else") is not None and not all_exits_fail(ifn["then"]):
            return None, "then-region can fall through and an else-region exists"
        return "F1", "positive conjunct of a check-only, failing region"
    # constructor initialiser copying the value (member init from parameter)
    for i in f.d.get("inits", []):
        if i.get("e") is not None and S.contains(i["e"], n) and i.get("field") == name:
            return "F3", "copied into the field of the same name"
    return None, "used as `%s`" % (astq.estr(par)[:60] if par is not None else "?")


MUTANTS = [
    dict(name="flags-made-consistent-after-parsing", file="btcdeb.cpp", find="        if (verbose) fprintf(stderr, \"resulting flags:", replace="        if (flags & (SCRIPT_VERIFY_WITNESS | SCRIPT_VERIFY_CLEANSTACK)) flags |= SCRIPT_VERIFY_P2SH;\n        if (verbose) fprintf(stderr, \"resulting flags:", expect=["R09.2:modified-only-by-parser"]),
    dict(name="row-bound-to-neighbour", file="btcdeb.cpp", find="    _(NULLFAIL),\n", replace="    script_verify_flag(\"NULLFAIL\", SCRIPT_VERIFY_NULLDUMMY),\n", expect=["R09.1:row=NULLFAIL"]),
    dict(name="row-missing", file="btcdeb.cpp", find="    _(MINIMALIF),\n", replace="", expect=["R09.1:missing=SCRIPT_VERIFY_MINIMALIF", "R09.1:standard-subset-of-table"]),
    dict(name="prefix-lookup", file="btcdeb.cpp", find="if (i.str == s) return i.id;", replace="if (!strncmp(s.c_str(), i.str.c_str(), i.str.size())) return i.id;", expect=["R09.1:exact-name-lookup"]),
    dict(name="polarity-swapped", file="btcdeb.cpp", find="if (adding) in_flags |= f; else in_flags &= ~f;", replace="if (adding) in_flags &= ~f; else in_flags |= f;", expect=["R09.2:polarity"]),
    dict(name="minus-means-plus-char", file="btcdeb.cpp", find="adding = buf[0] == '+';", replace="adding = buf[0] == '-';", expect=["R09.2:sign-definition", "R09.2:polarity"]),
    dict(name="unknown-name-ignored", file="btcdeb.cpp", find="                fprintf(stderr, \"svf_parse_flags(): unknown verification flag: %s\\n\", &buf[1]);\n                exit(1);",
         replace="                fprintf(stderr, \"svf_parse_flags(): unknown verification flag: %s\\n\", &buf[1]);", expect=["R09.2:reject-unknown-name"]),
    dict(name="starts-from-mandatory", file="btcdeb.cpp", find="unsigned int flags = STANDARD_SCRIPT_VERIFY_FLAGS;", replace="unsigned int flags = MANDATORY_SCRIPT_VERIFY_FLAGS;", expect=["R09.2:starts-from-standard"]),
    dict(name="nops-discouraged-when-cltv-off", file="script/interpreter.cpp",
         find="                    if (!(flags & SCRIPT_VERIFY_CHECKLOCKTIMEVERIFY)) {\n                        // not enabled; treat as a NOP2\n",
         replace="                    if (!(flags & SCRIPT_VERIFY_CHECKLOCKTIMEVERIFY)) {\n                        if (flags & SCRIPT_VERIFY_DISCOURAGE_UPGRADABLE_NOPS) return set_error(serror, SCRIPT_ERR_DISCOURAGE_UPGRADABLE_NOPS);\n",
         expect=["R09.3:read=StepScript:CHECKLOCKTIMEVERIFY"]),
    dict(name="flag-negated", file="script/interpreter.cpp", find="if (flags & SCRIPT_VERIFY_DISCOURAGE_UPGRADABLE_NOPS)\n                        return set_error(serror, SCRIPT_ERR_DISCOURAGE_UPGRADABLE_NOPS);",
         replace="if (!(flags & SCRIPT_VERIFY_DISCOURAGE_UPGRADABLE_NOPS))\n                        return set_error(serror, SCRIPT_ERR_DISCOURAGE_UPGRADABLE_NOPS);", expect=["R09.3:read=StepScript:DISCOURAGE_UPGRADABLE_NOPS"]),
    dict(name="mutation-under-flag", file="script/interpreter.cpp", find="                        if (sigversion == SigVersion::WITNESS_V0 && (flags & SCRIPT_VERIFY_MINIMALIF)) {\n",
         replace="                        if (sigversion == SigVersion::WITNESS_V0 && (flags & SCRIPT_VERIFY_MINIMALIF)) {\n                            if (vch.size() > 1) vch.resize(1);\n", expect=["R09.3:read=StepScript:MINIMALIF"]),
    dict(name="minimal-relaxes", file="script/interpreter.cpp", find="                if (fRequireMinimal && !CheckMinimalPush(vchPushValue, opcode)) {\n                    return set_error(serror, SCRIPT_ERR_MINIMALDATA);\n                }",
         replace="                if (fRequireMinimal && !CheckMinimalPush(vchPushValue, opcode)) {\n                    return set_error(serror, SCRIPT_ERR_MINIMALDATA);\n                } else if (!fRequireMinimal && vchPushValue.size() > 75) {\n                    return set_error(serror, SCRIPT_ERR_PUSH_SIZE);\n                }",
         expect=["R09.3:minimal-use"]),
    dict(name="balance-check-removed", file="debugger/interpreter.cpp", find="    if (!vfExec.empty()) {\n        env.done = true;\n        return set_error(serror, SCRIPT_ERR_UNBALANCED_CONDITIONAL);\n    }\n\n    if (is_p2sh) {",
         replace="    if (is_p2sh) {", expect=["R09.3:p2sh-continuation-keeps-balance-check"]),
]
