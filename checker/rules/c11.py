"""C11 - mock signatures affect exactly the listed pairs (DESIGN.md section 4, C11)."""
from .. import astq, structure as S
from ..facts import AnalysisBroken, walk

EXPLANATION = (
    "R11.1 non-interference: every read of the mock tables (pretend_valid_map / pretend_valid_pubkeys, through aliases) in code a step "
    "can reach is either the membership test of the key being checked, lies in the region guarded by that test, or only feeds a "
    "diagnostic on stderr - so a script that does not involve a listed key cannot observe the option. R11.2 ordering: in EvalChecksig "
    "and in the CHECKMULTISIG loop the mock branch dominates every call into the real verification (encoding checks, ECDSA / Schnorr "
    "checks, per-version evaluators), and the membership test is on the very key that is handed to the real checker. R11.3 sibling "
    "predicate: both sites accept with the same normalised conjunction `map.count(sig) && map.at(sig) == key`. R11.4 the pair-list "
    "parser inserts the same value as mapped value and as set member, keeps its 'signature seen' state in a boolean flag that is set and "
    "cleared by constants (so the refusals do not depend on token contents), both malformed-list edges return false, and session "
    "set-up copies both tables into the environment. The full grammar of pair lists is not decided.")
TRUSTED = ["clang 14 parser/Sema/CFG", "/verif extractor"]
ASSUMPTIONS = []
DECLINED = ["full grammar of pair lists", "value-level equality of parsed tokens"]

FIELDS = ("pretend_valid_map", "pretend_valid_pubkeys")
REAL_CHECKS = ("CheckSchnorrSignature", "CheckECDSASignature", "EvalChecksigPreTapscript", "EvalChecksigTapscript", "CheckSignatureEncoding", "CheckPubKeyEncoding")


def field_of(func, al, n):
    for p in astq.paths(n, al):
        fl = [f for f in p[1:] if f not in ("[]", "*")]
        if fl and fl[-1] in FIELDS:
            return fl[-1]
    return None


def mock_guards(func, al):
    """if-nodes whose condition is `<pubkeys>.count(K)` -> [(if node, key expr)]"""
    out = []
    for n in func.nodes():
        if n["k"] == "if":
            c = n["cond"]
            while c is not None and c.get("k") == "cast":
                c = c["e"]
            if c is not None and c.get("k") == "mcall" and c.get("n") == "count" and field_of(func, al, c.get("obj")) == "pretend_valid_pubkeys" and c["args"]:
                out.append((n, c["args"][0]))
    return out


def run(ctx, anchors=None):
    fb, prog = ctx.facts, ctx.prog
    ctx.rule("R11.1", "reads of the mock tables: membership test of the checked key, its guarded region, or stderr diagnostics only")
    ctx.rule("R11.2", "the mock branch dominates every real verification call and tests the key that is handed to the real checker")
    ctx.rule("R11.3", "CHECKSIG and CHECKMULTISIG accept with the same predicate map.count(sig) && map.at(sig) == key")
    ctx.rule("R11.4", "pair-list parser: same value into map and set; constant-driven state flag; malformed edges return false; tables copied at set-up")
    opstep = fb.fn("StepScript", file="script/interpreter.cpp")
    reach = prog.reachable([opstep])
    _diag_memo = {}

    def diag_only(fn, depth=0):
        """a repository function that only writes a diagnostic to stderr: no non-local write, no value returned, and every call is
        fprintf(stderr, ...), a string formatter, or another such function"""
        if fn.id in _diag_memo:
            return _diag_memo[fn.id]
        ws_ = [p_ for p_ in (prog.write_sets().get(fn.id) or {}) if not (p_[0][0] == "global" and p_[0][1] in ("stderr",))]
        ok = fn.body is not None and depth <= 2 and not ws_
        if ok:
            for x in fn.nodes():
                if x["k"] == "return" and x.get("e") is not None:
                    ok = False
                elif x["k"] == "call":
                    if x.get("n") == "fprintf":
                        ok = ok and bool(x["args"]) and any(y["k"] == "ref" and y["n"] == "stderr" for y in walk(x["args"][0]))
                    elif x.get("n") in ("Join", "HexStr", "fputc", "fputs", "JoinHexStrFun"):
                        pass
                    else:
                        gs = [g for g in (prog.resolve(x["cid"]) if x.get("cid") else []) if g.body is not None]
                        ok = ok and bool(gs) and all(diag_only(g, depth + 1) for g in gs)
                elif x["k"] == "mcall" and x.get("mconst") is False and not astq.is_pure_accessor(x):
                    ok = False
        _diag_memo[fn.id] = ok
        return ok

    def is_diag_call(x):
        gs = [g for g in (prog.resolve(x["cid"]) if x.get("cid") else []) if g.body is not None]
        return bool(gs) and all(diag_only(g) for g in gs)
    nreads = 0
    sites = []
    for fid in sorted(reach):
        f = fb.funcs[fid]
        al = astq.aliases(f)
        guards = mock_guards(f, al)
        for n in f.nodes():
            if n["k"] not in ("ref", "mem"):
                continue
            fld = None
            if n["k"] == "mem" and n["n"] in FIELDS:
                fld = n["n"]
            elif n["k"] == "ref" and n.get("dk") == "local" and n["d"] in al.map and field_of(f, al, n):
                fld = field_of(f, al, n)
            if not fld:
                continue
            # skip the alias declarations themselves
            if any(a.get("k") == "decl" and any(d.get("isref") for d in a["decls"]) for a in f.ancestors(n)) and n["k"] == "mem":
                continue
            nreads += 1
            ctx.site()
            where = None
            for (g, key) in guards:
                if S.contains(g["cond"], n):
                    where = "membership test of the key being checked"
                elif S.contains(g["then"], n):
                    where = "inside the region guarded by the membership test"
            if where is None:
                # diagnostics: argument of fprintf(stderr)/logger, or a condition guarding only such calls
                for a in f.ancestors(n):
                    if a.get("k") == "call" and a.get("n") in ("fprintf",) and any(x["k"] == "ref" and x["n"] == "stderr" for x in walk(a["args"][0])):
                        where = "argument of a stderr diagnostic"
                        break
                    if a.get("k") == "call" and is_diag_call(a):
                        where = "argument of a helper that only writes a stderr diagnostic"
                        break
                    if a.get("k") == "if" and S.contains(a["cond"], n):
                        body = [x for x in walk(a["then"]) if x["k"] in ("call", "mcall", "assign", "cassign", "return", "opcall")]
                        only_diag = all((x["k"] == "call" and (x.get("n") in ("fprintf", "Join", "HexStr") or is_diag_call(x))) or (x["k"] == "mcall" and x.get("n") in ("c_str",)) or
                                        (x["k"] == "return" and False) for x in body if x["k"] in ("call", "assign", "cassign", "return"))
                        no_state = not any(x["k"] in ("assign", "cassign", "return") for x in body)
                        if only_diag and no_state and a.get("else") is None:
                            where = "condition of a diagnostics-only branch"
                        break
            key = "read=%s@%s:%s" % (fld, f.name, astq.estr(f.parent(n))[:40] if f.parent(n) else "?")
            ctx.inst(where is not None, "R11.1", key, f.loc(n), "%s: %s" % (fld, where),
                     "%s is read in %s outside the mock branch (`%s`): scripts that do not involve a listed key can behave differently with the option"
                     % (fld, f.name, astq.estr([a for a in f.ancestors(n) if a.get("k") in ("if", "assign", "decl", "return", "call")][0])[:80] if list(f.ancestors(n)) else ""))
        if guards:
            sites.append((f, al, guards))
    ctx.floor("R11.1", nreads, 8, "reads of the mock tables in step-reachable code")
    nb = sum(len(g) for (_f, _a, g) in sites)
    if nb < 2:
        where = [f_.name for (f_, _a, g) in sites]
        ctx.fail("R11.2", "mock-branch-keyed-on-checked-key", opstep.loc(),
                 "expected a mock branch `if (pretend_valid_pubkeys.count(<key being checked>))` in EvalChecksig and in the CHECKMULTISIG loop, found only in %s: "
                 "the mock selection is no longer keyed on the key, so a listed signature offered for an unlisted key (or vice versa) changes the outcome" % (where or "none"))
    # reads of the mock tables outside the step: only the parser's own stores and the copies into the environment
    for f in fb.funcs.values():
        if f.id in reach or not f.file.startswith(("instance.", "btcdeb.cpp", "functions.", "tap.cpp")):
            continue
        for n in f.nodes():
            if n["k"] == "mem" and n["n"] in FIELDS:
                ctx.site()
                par = f.parent(n)
                okp = False
                why = ""
                if f.short == "parse_pretend_valid_expr":
                    okp = True
                    why = "the pair-list parser's own store"
                elif par is not None and par.get("k") == "opcall" and par.get("op") == "=" and astq.estr(par["args"][0]).endswith(n["n"]) and astq.estr(par["args"][1]).endswith(n["n"]):
                    okp = True
                    why = "copy of the table into the session environment"
                key = "setup-read=%s@%s:%s" % (n["n"], f.name, astq.estr(par)[:40] if par is not None else "?")
                ctx.inst(okp, "R11.1", key, f.loc(n), "%s: %s" % (n["n"], why),
                         "%s is consulted in %s (`%s`): the option changes session set-up (flags, scripts) for scripts that do not involve a listed key"
                         % (n["n"], f.name, astq.estr([a for a in f.ancestors(n) if a.get("k") in ("if", "assign", "cassign", "decl", "return")][0])[:90] if [a for a in f.ancestors(n) if a.get("k") in ("if", "assign", "cassign", "decl", "return")] else ""))
    preds = []
    for (f, al, guards) in sites:
        cfg = f.cfg()
        for (g, key) in guards:
            ktxt = astq.estr(key)
            # real verification calls in this function that take the same key
            reals = []
            for n in f.nodes():
                if astq.is_call(n) and n.get("n") in REAL_CHECKS:
                    kd = key.get("d") if key.get("k") == "ref" else None
                    if any(astq.estr(a) == ktxt or (kd and any(x["k"] == "ref" and x.get("d") == kd for x in walk(a))) for a in n["args"] if a is not None):
                        reals.append(n)
            ctx.site(len(reals))
            tag = "%s:%s" % (f.name, ktxt)
            if not reals:
                ctx.fail("R11.2", "mock-tests-checked-key:" + tag, f.loc(g), "the mock membership test is on `%s`, which is not the key handed to any real verification call in %s" % (ktxt, f.name))
            else:
                ctx.ok("R11.2", "mock-tests-checked-key:" + tag, f.loc(g), "membership test on `%s`, the key passed to %d real verification call(s)" % (ktxt, len(reals)))
            late = [r for r in reals if not cfg.dominates(g["cond"], r)]
            ctx.inst(not late, "R11.2", "mock-first:" + tag, f.loc(g), "the mock test dominates all real verification of `%s`" % ktxt,
                     "%s at %s verifies `%s` for real before / without consulting the mock pairs: a listed pair is no longer accepted regardless of context"
                     % (late[0].get("n") if late else "", f.loc(late[0]) if late else "", ktxt))
            # acceptance predicate
            acc = None
            for n in walk(g["then"]):
                if n["k"] == "assign" and n["rhs"].get("k") == "bin" and n["rhs"]["op"] == "&&":
                    acc = n
                    break
            if acc is None:
                ctx.fail("R11.3", "predicate:" + tag, f.loc(g), "no acceptance predicate of the form a && b found in the mock branch")
                continue
            l, r = acc["rhs"]["lhs"], acc["rhs"]["rhs"]
            while l is not None and l.get("k") == "cast":
                l = l["e"]
            okl = l is not None and l.get("k") == "mcall" and l.get("n") == "count" and field_of(f, al, l.get("obj")) == "pretend_valid_map"
            sig = astq.estr(l["args"][0]) if okl and l["args"] else None
            okr = r is not None and r.get("k") == "opcall" and r["op"] == "==" and len(r["args"]) == 2
            if okr:
                a0, a1 = r["args"]
                at = a0 if (a0.get("k") == "mcall" and a0.get("n") == "at") else (a1 if a1.get("k") == "mcall" and a1.get("n") == "at" else None)
                other = a1 if at is a0 else a0
                okr = at is not None and field_of(f, al, at.get("obj")) == "pretend_valid_map" and at["args"] and astq.estr(at["args"][0]) == sig and astq.estr(other) == ktxt
            ctx.inst(okl and okr, "R11.3", "predicate:" + tag, f.loc(acc), "accepts iff map.count(%s) && map.at(%s) == %s" % (sig, sig, ktxt),
                     "the mock acceptance predicate `%s` is not map.count(sig) && map.at(sig) == <checked key>: a signature other than the listed one can be accepted for the key" % astq.estr(acc["rhs"])[:90])
            preds.append((f.name, okl and okr))
    # ---- R11.4
    pf = fb.fn("Instance::parse_pretend_valid_expr")
    ins_map = ins_set = None
    for n in pf.nodes():
        if n["k"] == "opcall" and n["op"] == "=" and n["args"][0].get("k") == "opcall" and n["args"][0].get("op") == "[]" and "pretend_valid_map" in astq.estr(n["args"][0]):
            ins_map = (astq.estr(n["args"][0]["args"][1]), astq.estr(n["args"][1]), n)
        if n["k"] == "mcall" and n.get("n") == "insert" and "pretend_valid_pubkeys" in astq.estr(n.get("obj")):
            ins_set = (astq.estr(n["args"][0]), n)
    ctx.site()
    ctx.inst(ins_map is not None and ins_set is not None and ins_map[1] == ins_set[0], "R11.4", "same-key-in-map-and-set", pf.loc(ins_map[2]) if ins_map else pf.loc(),
             "map[sig] = K and set.insert(K) use the same value",
             "the parser stores %s in the map but %s in the key set" % (ins_map[1] if ins_map else "?", ins_set[0] if ins_set else "?"))
    # the 'signature seen' state: one boolean local, refused when set at ':' and when clear at ',' / end, written only by constants;
    # independent of whether the separator dispatch is a switch or an if-chain
    flag_ok = False
    msgs = []
    pcfg = pf.cfg()

    def separators(node):
        """separator constants under which node executes: case labels of the enclosing group / `*c == K` guards"""
        out = set()
        for anc in pf.ancestors(node):
            if anc.get("k") == "switch":
                for g in S.case_groups(anc):
                    if g.contains(node):
                        out |= {v for (_n, v, _c) in g.labels if isinstance(v, int)}
        for (c, t) in S.ast_guards(pf, node):
            if t:
                for d in S.disjuncts(c):
                    if d is not None and d.get("k") == "bin" and d["op"] == "==":
                        for side in (d["lhs"], d["rhs"]):
                            v = astq.const_value(side)
                            if v is not None:
                                out.add(v)
        return out
    refusals = {}
    for n in pf.nodes():
        if n["k"] == "if" and any(x["k"] == "return" and astq.const_value(x.get("e")) == 0 for x in walk(n["then"])):
            a_, neg = S.strip_not(n["cond"])
            if a_ is not None and a_.get("k") == "ref" and a_.get("dk") == "local" and a_.get("ty") == "bool":
                refusals.setdefault(a_["d"], []).append((neg, n))
    cand = [d for d, lst in refusals.items() if {neg for (neg, n) in lst} == {True, False}]
    if len(cand) != 1:
        msgs.append("the unexpected-colon / missing-signature refusals are not keyed on one boolean parser-state flag")
    else:
        d_ = cand[0]
        writes = [n for n in pf.nodes() if n["k"] in ("assign", "cassign") and n["lhs"].get("k") == "ref" and n["lhs"].get("d") == d_]
        nonconst = [n for n in writes if not (n["k"] == "assign" and n["rhs"].get("k") == "bool")]
        set_t = [n for n in writes if n["k"] == "assign" and n["rhs"].get("k") == "bool" and n["rhs"]["v"]]
        set_f = [n for n in writes if n["k"] == "assign" and n["rhs"].get("k") == "bool" and not n["rhs"]["v"]]
        in_loop = lambda n_: any(a_.get("k") in ("while", "for", "do", "forrange") for a_ in pf.ancestors(n_))
        # a refusal keyed on the flag after the loop is the end-of-input test (a signature without its key), not a separator case
        pos = [n for (neg, n) in refusals[d_] if not neg and in_loop(n)]
        negs = [n for (neg, n) in refusals[d_] if neg and in_loop(n)]
        if nonconst:
            msgs.append("the flag is written from a non-constant")
        if not set_t or not all(any(pcfg.dominates(r_["cond"], n) for r_ in pos) and 58 in separators(n) for n in set_t):
            msgs.append("the flag is not set to true after a signature was read (at ':' after the unexpected-colon refusal)")
        if not set_f or not all(any(pcfg.dominates(r_["cond"], n) for r_ in negs) and 44 in separators(n) for n in set_f):
            msgs.append("the flag is not cleared after a pair was stored (at ',' after the missing-signature refusal)")
        if not all(58 in separators(n) for n in pos) or not all(44 in separators(n) for n in negs):
            msgs.append("the refusals are not under the ':' / ',' separators")
        flag_ok = not msgs
    ctx.site()
    ctx.inst(flag_ok, "R11.4", "parser-state-flag", pf.loc(), "signature-seen state is a boolean flag set/cleared by constants; both malformed-list edges return false",
             "pair-list parser: %s - acceptance of malformed lists now depends on token contents (e.g. an empty signature)" % "; ".join(msgs))
    se = fb.fn("Instance::setup_environment")
    copies = set()
    for n in se.nodes():
        if n["k"] == "opcall" and n["op"] == "=":
            l, r = astq.estr(n["args"][0]), astq.estr(n["args"][1])
            for fld in FIELDS:
                if l.endswith(fld) and r.endswith(fld) and l != r:
                    copies.add(fld)
    ctx.inst(copies == set(FIELDS), "R11.4", "tables-copied-at-setup", se.loc(), "both mock tables are copied into the session environment",
             "setup_environment copies only %s of the mock tables into the environment" % sorted(copies))
    from . import common
    drv = common.func_calling(fb, "btcdeb.cpp", "parse_pretend_valid_expr")
    pc = [n for n in drv.nodes() if n["k"] == "mcall" and n.get("n") == "parse_pretend_valid_expr"]
    used = bool(pc) and any(a.get("k") == "if" for a in drv.ancestors(pc[0]))
    ctx.inst(used, "R11.4", "malformed-list-rejected", drv.loc(pc[0]) if pc else drv.loc(), "btcdeb exits when the pair list is rejected")

    # ---- R11.5 a pair list that was given is parsed: the parse call of the driver is skipped only when the option is absent. Every
    # branch that dominates the call and whose other edge goes on to set the session up (rather than leaving the program) is the
    # test of the option itself - not, say, "a script was given", which is false for --tx/--txin and --dataset sessions.
    ctx.rule("R11.5", "the --pretend-valid list is parsed whenever the option is given (the call is skipped only by the option test)")
    if pc:
        dcfg = drv.cfg()
        setups = [n for n in drv.nodes() if n["k"] == "mcall" and n.get("n") == "setup_environment"]
        if setups:
            sblocks = dcfg.blocks_of_nodes(setups)
        else:
            # the driver was split: "goes on" = reaches a return that does not report failure (the caller sets the session up)
            okret = [n for n in drv.nodes() if n["k"] == "return" and (n.get("e") is None or astq.const_value(n["e"]) is None or
                                                                        (astq.const_value(n["e"]) != 0) == (drv.d.get("ret", "") == "bool"))]
            sblocks = dcfg.blocks_of_nodes(okret) or {dcfg.exit}
        edges = {}
        for (a_, s_, c_, t_) in dcfg.cond_edges():
            edges[(c_, t_)] = edges.get((c_, t_), []) + [(a_, s_)]
        bad5 = []
        for (c_, t_) in dcfg.guards_of(pc[0]):
            others = edges.get((c_, not t_), [])
            goes_on = any(sblocks & dcfg.reachable_from(s_) for (_a, s_) in others)
            if not goes_on:
                continue      # the other edge leaves the program (usage, version, refusal)
            cn = drv.node_by_id(c_)
            is_opt = cn is not None and any(x["k"] in ("mcall", "opcall") and x.get("n") in ("count", "find") and any(astq.const_value(y) == ord("P") for y in walk(x)) for x in walk(astq.expand(drv, cn)))
            if not is_opt:
                bad5.append(astq.estr(cn)[:60] if cn is not None else "?")
        ctx.site()
        ctx.inst(not bad5, "R11.5", "list-parsed-whenever-given", drv.loc(pc[0]), "the parse call is skipped only when the option is absent",
                 "the parse call is also skipped when `%s` is %s, and the run goes on to set the session up: the listed pairs are silently dropped (and a malformed list accepted) for such sessions"
                 % (bad5[0] if bad5 else "", "false"))

    # ---- R11.4b a pair list that ends in `sig:` (a signature without its key) is malformed too: every accepting path of the
    # parser either leaves the "have a signature" flag cleared by its last iteration or has decided it false after the loop
    from .. import symx as _sx11
    pv = fb.fn("Instance::parse_pretend_valid_expr")
    X11 = _sx11.Explorer(prog, inline=lambda fn, n: False, transparent=lambda n: True)
    try:
        outs11 = X11.explore(pv, this=("a", "this"), limit=4000)
    except _sx11.Unsupported as e:
        raise AnalysisBroken("R11.4b: %s" % e)
    flag_names = [d["n"] for n in pv.nodes() if n["k"] == "decl" for d in n["decls"] if (d.get("ty") or "") == "bool"]
    acc = [o for o in outs11 if o.ret == _sx11.C(1)]
    if len(flag_names) != 1:
        # no (single) boolean state flag: that is what R11.4 parser-state-flag reports; nothing to read the end state from
        ctx.note("R11.4b: no single boolean state flag in parse_pretend_valid_expr (%s); end-of-input state not judged" % flag_names)
        acc = []
    dangling = []
    for o in acc:
        g = _sx11.Explorer.var(o, flag_names[0])
        if g == _sx11.C(0) or any(t == g and not v for (t, v) in o.conds):
            continue
        if isinstance(g, tuple) and g[:2] == ("ap", "loopvar") and g[3] == _sx11.C(0):
            continue
        if isinstance(g, tuple) and g[:2] == ("ap", "loopvar") and isinstance(g[3], tuple) and g[3][0] == "prev" and \
                any(isinstance(t, tuple) and t[0] == "prev" and t == g[3] and not v for (t, v) in o.conds):
            continue
        dangling.append(_sx11.show(g)[:60])
    ctx.site(len(acc))
    if len(flag_names) == 1:
      ctx.inst(bool(acc) and not dangling, "R11.4", "dangling-signature-rejected", pv.loc(),
             "every accepting path of the pair-list parser ends with the signature flag cleared",
             "the pair-list parser can return true while it still holds a signature without a key (flag = %s): `--pretend-valid=sig1:` and `sig1:pub1,sig2:` are accepted and the dangling signature is silently dropped" % (dangling[0] if dangling else ""))


MUTANTS = [
    dict(name="pair-list-parsed-only-with-a-script", file="btcdeb.cpp", find="    if (ca.m.count('P')) {\n        if (!instance.parse_pretend_valid_expr(", replace="    if (ca.m.count('P') && script_str) {\n        if (!instance.parse_pretend_valid_expr(", expect=["R11.5:list-parsed-whenever-given"]),
    dict(name="dangling-signature-accepted", file="instance.cpp", find="    if (got_sig) {\n        fprintf(stderr, \"parse error (signature without a public key)", replace="    if (false) {\n        fprintf(stderr, \"parse error (signature without a public key)", expect=["R11.4:dangling-signature-rejected"]),
    dict(name="multisig-mock-keyed-on-signature-lookup", file="script/interpreter.cpp",
         find="                        if (pretend_valid_pubkeys.count(vchPubKey)) {\n                            fOk = pretend_valid_map.count(vchSig) && pretend_valid_map.at(vchSig) == vchPubKey;",
         replace="                        auto mock = pretend_valid_map.find(vchSig);\n                        if (mock != pretend_valid_map.end()) {\n                            fOk = mock->second == vchPubKey;", expect=["R11.2:mock-branch-keyed-on-checked-key", "R11.1:read"]),
    dict(name="mock-changes-flags", file="instance.cpp", find="    env = new InterpreterEnv(stack, script, flags, *checker, sigver, &error);", replace="    if (!pretend_valid_map.empty()) flags &= ~SCRIPT_VERIFY_CONST_SCRIPTCODE;\n    env = new InterpreterEnv(stack, script, flags, *checker, sigver, &error);", expect=["R11.1:setup-read=pretend_valid_map"]),
    dict(name="taproot-check-before-mock", file="script/interpreter.cpp",
         find="    if (pretend_valid_pubkeys.count(pubkey)) {\n        success = pretend_valid_map.count(sig) && pretend_valid_map.at(sig) == pubkey;",
         replace="    if (sigversion == SigVersion::TAPROOT) {\n        success = checker.CheckSchnorrSignature(sig, pubkey, SigVersion::TAPROOT, execdata);\n        return success;\n    }\n    if (pretend_valid_pubkeys.count(pubkey)) {\n        success = pretend_valid_map.count(sig) && pretend_valid_map.at(sig) == pubkey;",
         expect=["R11.2:mock-first:EvalChecksig"]),
    dict(name="pubkey-equality-dropped", file="script/interpreter.cpp", find="fOk = pretend_valid_map.count(vchSig) && pretend_valid_map.at(vchSig) == vchPubKey;", replace="fOk = pretend_valid_map.count(vchSig) && pretend_valid_map.at(vchSig).size() > 0;", expect=["R11.3:predicate:StepScript"]),
    dict(name="mock-keyed-on-signature", file="script/interpreter.cpp", find="                        if (pretend_valid_pubkeys.count(vchPubKey)) {", replace="                        if (pretend_valid_pubkeys.count(vchSig)) {", expect=["R11.2:mock-tests-checked-key", "R11.3:predicate"]),
    dict(name="map-consulted-outside-branch", file="script/interpreter.cpp", find="    if (!fSuccess && (flags & SCRIPT_VERIFY_NULLFAIL) && vchSig.size())\n        return set_error(serror, SCRIPT_ERR_SIG_NULLFAIL);",
         replace="    if (!fSuccess && (flags & SCRIPT_VERIFY_NULLFAIL) && vchSig.size() && !pretend_valid_map.count(vchSig))\n        return set_error(serror, SCRIPT_ERR_SIG_NULLFAIL);", expect=["R11.1:read=pretend_valid_map@EvalChecksigPreTapscript"]),
    dict(name="set-gets-signature", file="instance.cpp", find="            pretend_valid_pubkeys.insert(s);", replace="            pretend_valid_pubkeys.insert(sig);", expect=["R11.4:same-key-in-map-and-set"]),
    dict(name="state-from-value", file="instance.cpp", find="            if (got_sig) {\n                fprintf(stderr, \"parse error (unexpected colon)", replace="            if (!sig.empty()) {\n                fprintf(stderr, \"parse error (unexpected colon)", expect=["R11.4:parser-state-flag"]),
    dict(name="pubkey-table-not-copied", file="instance.cpp", find="    env->pretend_valid_pubkeys = pretend_valid_pubkeys;\n", replace="", expect=["R11.4:tables-copied-at-setup"]),
]
