"""Structural helpers: path conditions from the AST shape, switch case groups, condition decomposition."""
from . import astq
from .facts import walk, children


def conjuncts(n):
    """flatten a && b && c"""
    if n is not None and n.get("k") == "bin" and n.get("op") == "&&":
        return conjuncts(n["lhs"]) + conjuncts(n["rhs"])
    return [n]


def disjuncts(n):
    if n is not None and n.get("k") == "bin" and n.get("op") == "||":
        return disjuncts(n["lhs"]) + disjuncts(n["rhs"])
    return [n]


def strip_not(n):
    neg = False
    while n is not None and n.get("k") == "un" and n.get("op") == "!":
        n = n["e"]
        neg = not neg
    return n, neg


def contains(root, node):
    for x in walk(root):
        if x is node:
            return True
    return False


def ast_guards(func, node):
    """[(cond_expr, truth)] structural path condition of node: enclosing if/else arms, conditional operators,
    and short-circuit operands to the left of node, with `A && B` holding split into A, B holding and `A || B` failing split
    into A, B failing - so nested ifs and one combined condition give the same guards. (Early exits are *not* reflected here;
    see CFG.guards_of.)"""
    out = []

    from . import astq as _a
    sd = _a.single_defs(func)

    def flat(c, t, depth=0):
        parts = conjuncts(c) if t else disjuncts(c)
        for p_ in parts:
            # hoisted sub-expressions (`const bool is_base = sigversion == BASE; ... if (is_base || ...)`) stand for their
            # initialisers; the original node is kept when nothing was hoisted
            if depth < 2 and p_ is not None and any(x.get("k") == "ref" and x.get("dk") == "local" and x.get("d") in sd for x in _a.walk(p_)):
                q_ = _a.expand(func, p_)
                if (conjuncts(q_) if t else disjuncts(q_)) != [q_]:
                    flat(q_, t, depth + 1)
                    continue
                a_, neg = strip_not(q_)
                if neg and a_ is not None and a_.get("k") == "bin" and a_.get("op") in ("&&", "||"):
                    out.append((q_, t))
                    continue
                p_ = q_
            out.append((p_, t))
    for (c, t) in _ast_guards_raw(func, node):
        flat(c, t)
    return out


def _ast_guards_raw(func, node):
    out = []
    cur = node
    for anc in func.ancestors(node):
        k = anc.get("k")
        if k == "if":
            if anc.get("then") is not None and (anc["then"] is cur):
                out.append((anc["cond"], True))
            elif anc.get("else") is not None and (anc["else"] is cur):
                out.append((anc["cond"], False))
        elif k == "cond":
            if anc.get("then") is cur:
                out.append((anc["cond"], True))
            elif anc.get("else") is cur:
                out.append((anc["cond"], False))
        elif k == "bin" and anc.get("op") in ("&&", "||"):
            if anc.get("rhs") is cur:
                out.append((anc["lhs"], anc["op"] == "&&"))
        elif k in ("while", "for"):
            if anc.get("body") is cur and anc.get("cond") is not None:
                out.append((anc["cond"], True))
        cur = anc
    return out


def guard_atoms(func, node):
    """flattened atoms: positive conjunct atoms of true-guards and negated disjunct atoms of false-guards
    -> [(atom_expr, truth)] where truth applies to the atom (after stripping '!')."""
    out = []
    for (c, t) in ast_guards(func, node):
        parts = conjuncts(c) if t else disjuncts(c)
        for p in parts:
            a, neg = strip_not(p)
            out.append((a, t != neg))
    return out


class CaseGroup:
    def __init__(self, labels, stmts, switch):
        self.labels = labels      # [(name or None, value or 'default', case node)]
        self.stmts = stmts        # statements of the group in order
        self.switch = switch

    def names(self):
        return [l[0] if l[0] else str(l[1]) for l in self.labels]

    def short_names(self):
        return [x.split("::")[-1] for x in self.names()]

    def nodes(self):
        for s in self.stmts:
            for n in walk(s):
                yield n

    def contains(self, node):
        for n in self.nodes():
            if n is node:
                return True
        return False


def case_groups(switch):
    """Case groups of a switch: consecutive labels sharing one body."""
    body = switch.get("body")
    if body is None:
        return []
    items = body["ch"] if body.get("k") == "block" else [body]
    groups = []
    cur = None
    for it in items:
        if it is None:
            continue
        if it.get("k") in ("case", "default"):
            labels = []
            x = it
            while x is not None and x.get("k") in ("case", "default"):
                if x["k"] == "case":
                    labels.append((x.get("vn"), x.get("v"), x))
                else:
                    labels.append((None, "default", x))
                x = x.get("sub")
            # labels directly following a previous label group with no statements in between are merged by nesting
            cur = CaseGroup(labels, [x] if x is not None else [], switch)
            groups.append(cur)
        else:
            if cur is not None:
                cur.stmts.append(it)
    return groups


def find_switches(func, pred=None):
    out = []
    for n in func.nodes():
        if n["k"] == "switch" and (pred is None or pred(n)):
            out.append(n)
    return out


def group_of(groups, node):
    for g in groups:
        if g.contains(node):
            return g
    return None


def terminates(stmt):
    """statement never falls through to the next one (return / break / continue / throw / noreturn call)"""
    if stmt is None:
        return False
    k = stmt.get("k")
    if k in ("return", "break", "continue", "throw", "goto"):
        return True
    if k == "block":
        ch = [c for c in stmt["ch"] if c is not None]
        return bool(ch) and terminates(ch[-1])
    if k == "if":
        return stmt.get("else") is not None and terminates(stmt["then"]) and terminates(stmt["else"])
    if k in ("call", "mcall") and stmt.get("noret"):
        return True
    if k == "cond":
        return False
    return False


def compared_enumerators(cond, var_pred):
    """for a condition made of ==/|| over one variable: set of enumerator names it is compared equal to,
    or None if the shape is different. var_pred(expr)->bool identifies the variable side."""
    names = set()
    for d in disjuncts(cond):
        if d is None or d.get("k") not in ("bin", "opcall") or d.get("op") != "==":
            return None
        a, b = (d["lhs"], d["rhs"]) if d["k"] == "bin" else (d["args"][0], d["args"][1])
        if var_pred(a) and b.get("k") == "ref" and b.get("dk") == "enumc":
            names.add(b["qn"])
        elif var_pred(b) and a.get("k") == "ref" and a.get("dk") == "enumc":
            names.add(a["qn"])
        else:
            return None
    return names
