"""Whole-program engines over the fact base: call graph (G-CG), write-set summaries (G-WS),
exception escape (G-EXC)."""
from . import astq
from .facts import walk, AnalysisBroken


class Program:
    def __init__(self, facts):
        self.facts = facts
        self._overriders = None
        self._callees = {}
        self._ws = None
        self._fnptr_targets = None

    # ------------------------------------------------------------------ G-CG
    def overriders(self):
        """virtual method id -> [Func] of all (transitive) overriders with bodies, plus itself."""
        if self._overriders is None:
            direct = {}
            for f in self.facts.funcs.values():
                for o in f.d.get("overrides", []):
                    direct.setdefault(o, set()).add(f.id)
            res = {}

            def collect(i, acc):
                for j in direct.get(i, ()):
                    if j not in acc:
                        acc.add(j)
                        collect(j, acc)
            for i in list(direct):
                acc = set()
                collect(i, acc)
                res[i] = acc
            self._overriders = res
        return self._overriders

    def resolve(self, cid, virt=False):
        """Functions (with bodies, in the repository) a call with callee id cid may enter."""
        out = []
        f = self.facts.funcs.get(cid)
        if f is not None:
            out.append(f)
        out.extend(self.facts.alts.get(cid, ()))
        for j in self.overriders().get(cid, ()):
            g = self.facts.funcs.get(j)
            if g is not None and g not in out:
                out.append(g)
        return out

    def fnptr_refs(self, func):
        """Functions whose address is taken (referenced not as direct callee) in func: registration sites."""
        out = []
        for n in func.nodes():
            if n["k"] == "ref" and n.get("dk") == "func":
                par = func.parent(n)
                if par is not None and par.get("k") in ("call", "mcall", "opcall") and par.get("fn") is n:
                    continue
                out.append(n)
            if n["k"] == "lambda" and n.get("fid"):
                out.append({"fid": n["fid"], "qn": "<lambda>", "l": n.get("l"), "k": "lambda"})
        return out

    def indirect_targets(self, call_node):
        out = []
        names = {x["d"] for x in walk(call_node["fn"]) if x["k"] == "ref" and x.get("dk") == "global"}
        for nm in names:
            for v in self.facts.vars_by_name.get(nm, []):
                if v.get("init") is None:
                    continue
                for x in walk(v["init"]):
                    if x["k"] == "ref" and x.get("dk") == "func":
                        g = self.facts.funcs.get(x["fid"])
                        if g is not None and g not in out:
                            out.append(g)
        return out

    def callees(self, func, include_fnptr=True):
        """[(call node or ref node, Func)] resolved callees with bodies in the repo."""
        if func.id in self._callees:
            return self._callees[func.id]
        out = []
        for n in func.nodes():
            if astq.is_call(n) and n.get("cid"):
                for g in self.resolve(n["cid"]):
                    out.append((n, g))
        # construction hidden inside the standard library: v.emplace_back(args...) / std::make_shared<T>(args...) run a
        # constructor of the element type T (first template argument in the mangled callee); every constructor of T is a callee
        for n in func.nodes():
            if n.get("k") in ("call", "mcall") and n.get("ext") and n.get("n") in ("emplace_back", "emplace", "emplace_front", "make_shared", "make_unique", "construct_at") and n.get("cid"):
                import re as _re
                m_ = _re.search(r"I(\d+)([A-Za-z_][A-Za-z_0-9]*)", n["cid"])
                if m_:
                    cls = m_.group(2)[:int(m_.group(1))]
                    if cls in self.facts.records:
                        for g in self.facts.funcs.values():
                            if g.rec == cls and g.short == cls and g.body is not None:
                                out.append((n, g))
        # indirect calls through a table of function pointers held in a global (e.g. tfs[i].fun(...)):
        # every function whose address appears in that global's initialiser is a possible callee
        for n in func.nodes():
            if n.get("k") in ("call", "mcall") and not n.get("cid") and n.get("fn") is not None:
                for g in self.indirect_targets(n):
                    out.append((n, g))
        if include_fnptr:
            for r in self.fnptr_refs(func):
                g = self.facts.funcs.get(r["fid"])
                if g is not None:
                    out.append((r, g))
        self._callees[func.id] = out
        return out

    def reachable(self, roots, stop=()):
        seen = {}
        st = []
        for r in roots:
            if r.id not in seen:
                seen[r.id] = (None, None)
                st.append(r)
        stop = set(stop)
        while st:
            f = st.pop()
            if f.id in stop:
                continue
            for (n, g) in self.callees(f):
                if g.id not in seen:
                    seen[g.id] = (f.id, n)
                    st.append(g)
        return seen

    def chain(self, seen, fid):
        """Call chain (list of 'name (file:line)') from a root to fid using the predecessor map of reachable()."""
        out = []
        cur = fid
        while cur is not None:
            f = self.facts.funcs[cur]
            pred, n = seen[cur]
            if pred is not None:
                pf = self.facts.funcs[pred]
                out.append("%s called at %s" % (f.name, pf.loc(n)))
            else:
                out.append("%s (entry, %s)" % (f.name, f.loc()))
            cur = pred
        return list(reversed(out))

    # ------------------------------------------------------------------ G-WS
    def _local_summary(self, func):
        """(direct writes, calls) with roots normalised to ('parm', index) / ('this',) / ('global', name)."""
        pidx = {p["d"]: i for i, p in enumerate(func.params)}
        pk = func.d.get("pk", "")

        def norm(p):
            root = p[0]
            if root[0] == "parm":
                i = pidx.get(root[1])
                if i is None:
                    return None   # parameter of an enclosing function (lambda capture) - ignore
                kind = pk[i] if i < len(pk) else "v"
                if kind in ("r", "m", "c"):
                    return (("parm", i),) + p[1:]
                if kind in ("p", "q"):
                    if len(p) > 1 and p[1] == "*":
                        return (("parm", i),) + p[1:]
                    return None
                return None
            if root[0] == "this":
                return p
            if root[0] == "global":
                return p
            return None  # local
        writes = []
        calls = []
        for (n, kind, ps, detail) in astq.write_events(func, lambda cid: (self.resolve(cid) or None)):
            if kind == "call":
                cid, binding = detail
                nb = {}
                for key, bps in binding.items():
                    nps = [q for q in (norm(p) for p in bps) if q is not None]
                    if nps:
                        nb[key] = nps
                calls.append((n, cid, nb))
            else:
                for p in ps:
                    q = norm(p)
                    if q is not None:
                        writes.append((q, n, kind, detail))
        return writes, calls

    def call_effects(self, func, call_node):
        """{caller-normalised path: witness} written by one call site (callee summaries substituted)."""
        ws = self.write_sets()
        _w, calls = self._local_summary(func)
        out = {}
        for (n, cid, binding) in calls:
            if n is not call_node:
                continue
            for g in self.resolve(cid):
                gpk = g.d.get("pk", "")
                for gp, wit in ws.get(g.id, {}).items():
                    root = gp[0]
                    if root[0] == "global":
                        out.setdefault(gp, wit)
                        continue
                    if root[0] == "this":
                        bps = binding.get("this")
                        rest = gp[2:] if len(gp) > 1 and gp[1] == "*" else gp[1:]
                    else:
                        i = root[1]
                        bps = binding.get(i)
                        kind = gpk[i] if i < len(gpk) else "v"
                        rest = gp[2:] if kind in ("p", "q") else gp[1:]
                    for bp in (bps or []):
                        out.setdefault(bp + rest, wit)
        return out

    def write_sets(self):
        """func id -> {path: witness} least fixpoint. witness = (func id, node loc, kind, via) of one writer."""
        if self._ws is not None:
            return self._ws
        local = {}
        ws = {}
        for f in self.facts.funcs.values():
            if f.body is None:
                continue
            w, c = self._local_summary(f)
            local[f.id] = (w, c)
            ws[f.id] = {}
            for (p, n, kind, detail) in w:
                ws[f.id].setdefault(p, (f.id, f.loc(n), kind, detail))
        changed = True
        rounds = 0
        while changed:
            changed = False
            rounds += 1
            for fid, (w, calls) in local.items():
                cur = ws[fid]
                for (n, cid, binding) in calls:
                    for g in self.resolve(cid):
                        gs = ws.get(g.id)
                        if not gs:
                            continue
                        gpk = g.d.get("pk", "")
                        for gp, wit in list(gs.items()):
                            root = gp[0]
                            if root[0] == "global":
                                if gp not in cur:
                                    cur[gp] = wit
                                    changed = True
                                continue
                            if root[0] == "this":
                                bps = binding.get("this")
                                rest = gp[2:] if len(gp) > 1 and gp[1] == "*" else gp[1:]
                            else:
                                i = root[1]
                                bps = binding.get(i)
                                kind = gpk[i] if i < len(gpk) else "v"
                                if kind in ("p", "q"):
                                    rest = gp[2:]
                                else:
                                    rest = gp[1:]
                            if not bps:
                                continue
                            for bp in bps:
                                np_ = bp + rest
                                if len(np_) > 8:
                                    np_ = np_[:8]
                                if np_ not in cur:
                                    cur[np_] = wit
                                    changed = True
            if rounds > 60:
                raise AnalysisBroken("write-set fixpoint did not converge")
        self._ws = ws
        self.ws_rounds = rounds
        return ws


# ---------------------------------------------------------------------- G-EXC exception escape

STD_EXC_BASES = {
    "std::exception": [],
    "std::runtime_error": ["std::exception"],
    "std::logic_error": ["std::exception"],
    "std::out_of_range": ["std::logic_error"],
    "std::invalid_argument": ["std::logic_error"],
    "std::length_error": ["std::logic_error"],
    "std::domain_error": ["std::logic_error"],
    "std::range_error": ["std::runtime_error"],
    "std::overflow_error": ["std::runtime_error"],
    "std::underflow_error": ["std::runtime_error"],
    "std::system_error": ["std::runtime_error"],
    "std::ios_base::failure": ["std::system_error"],
    "std::bad_alloc": ["std::exception"],
    "std::bad_cast": ["std::exception"],
    "std::bad_optional_access": ["std::exception"],
    "std::bad_function_call": ["std::exception"],
    "std::bad_variant_access": ["std::exception"],
}

# external (libstdc++) calls modelled as throwing. allocation failure is out of scope (stated assumption).
THROWING_EXTERNALS = [
    (("std::vector", "std::array", "std::basic_string", "std::deque", "std::map", "std::unordered_map", "std::basic_string_view"), "at", "std::out_of_range"),
    (("std::basic_string", "std::basic_string_view"), "substr", "std::out_of_range"),
    (("std::basic_string",), "erase", "std::out_of_range"),
    (("std::basic_string",), "insert", "std::out_of_range"),
    (("std::basic_string",), "replace", "std::out_of_range"),
    (("std::basic_string",), "compare", "std::out_of_range"),
    (("std::optional",), "value", "std::bad_optional_access"),
    (("std::function",), "operator()", "std::bad_function_call"),
]
THROWING_FREE = {
    "std::stoi": ["std::invalid_argument", "std::out_of_range"],
    "std::stol": ["std::invalid_argument", "std::out_of_range"],
    "std::stoll": ["std::invalid_argument", "std::out_of_range"],
    "std::stoul": ["std::invalid_argument", "std::out_of_range"],
    "std::stoull": ["std::invalid_argument", "std::out_of_range"],
    "std::stod": ["std::invalid_argument", "std::out_of_range"],
}


class ExcEngine:
    def __init__(self, prog):
        self.prog = prog
        self.facts = prog.facts
        self.mt = None      # func id -> {type: witness}; witness = (kind, loc, detail)

    def norm_type(self, t):
        if t is None:
            return "?"
        t = t.replace("[abi:cxx11]", "").strip()
        t = t.replace("std::__cxx11::", "std::")
        if t.startswith("std::ios_base::failure"):
            return "std::ios_base::failure"
        return t

    def bases(self, t):
        t = self.norm_type(t)
        if t in STD_EXC_BASES:
            return STD_EXC_BASES[t]
        r = self.facts.records.get(t)
        if r:
            return [self.norm_type(b) for b in r.get("bases", [])]
        return []

    def catches(self, handler_ty, thrown):
        if handler_ty == "...":
            return True
        h = self.norm_type(handler_ty)
        seen = set()
        st = [self.norm_type(thrown)]
        while st:
            x = st.pop()
            if x == h:
                return True
            if x in seen:
                continue
            seen.add(x)
            st.extend(self.bases(x))
        return False

    def external_throws(self, n):
        out = []
        callee = n.get("callee") or ""
        name = n.get("n") or ""
        rec = n.get("mrec") or ""
        if callee in THROWING_FREE:
            out.extend(THROWING_FREE[callee])
        for recs, m, ty in THROWING_EXTERNALS:
            if name == m and rec.startswith(recs):
                out.append(ty)
        return out

    def _subtree(self, func, n, cur):
        """may-throw set {type: witness} of the AST subtree n, using current function summaries `cur`."""
        out = {}
        if n is None:
            return out
        k = n.get("k")
        if k == "try":
            body = self._subtree(func, n["body"], cur)
            remaining = dict(body)
            for h in n["handlers"]:
                caught = {t: w for t, w in remaining.items() if self.catches(h["ty"], t)}
                for t in caught:
                    remaining.pop(t)
                hs = self._subtree(func, h["body"], cur)
                if "<rethrow>" in hs:
                    hs.pop("<rethrow>")
                    for t, w in caught.items():
                        hs.setdefault(t, w)
                for t, w in hs.items():
                    out.setdefault(t, w)
            for t, w in remaining.items():
                out.setdefault(t, w)
            return out
        if k == "throw":
            if n.get("rethrow"):
                out["<rethrow>"] = ("rethrow", func.loc(n), None)
            else:
                out[self.norm_type(n.get("ty"))] = ("throw", func.loc(n), func.name)
        elif k == "lambda":
            # body is a separate function; a lambda is assumed to be invoked where it is created
            g = self.facts.funcs.get(n.get("fid"))
            if g is not None:
                for t, w in cur.get(g.id, {}).items():
                    out.setdefault(t, ("call", func.loc(n), g.id))
        elif k in ("call", "mcall", "opcall", "ctor"):
            cid = n.get("cid")
            targets = self.prog.resolve(cid) if cid else []
            if targets:
                for g in targets:
                    for t, w in cur.get(g.id, {}).items():
                        out.setdefault(t, ("call", func.loc(n), g.id))
            else:
                for ty in self.external_throws(n):
                    out.setdefault(ty, ("libcall", func.loc(n), n.get("callee")))
                if not cid and n.get("fn") is not None:
                    for g in self.prog.indirect_targets(n):
                        for t, w in cur.get(g.id, {}).items():
                            out.setdefault(t, ("call", func.loc(n), g.id))
        from .facts import children
        for c in children(n):
            if c.get("k") == "lambda" and False:
                continue
            for t, w in self._subtree(func, c, cur).items():
                out.setdefault(t, w)
        return out

    def compute(self):
        if self.mt is not None:
            return self.mt
        cur = {fid: {} for fid in self.facts.funcs}
        changed = True
        rounds = 0
        while changed:
            changed = False
            rounds += 1
            for fid, f in self.facts.funcs.items():
                new = {}
                for r in f.all_roots():
                    for t, w in self._subtree(f, r, cur).items():
                        new.setdefault(t, w)
                new.pop("<rethrow>", None)
                if set(new) != set(cur[fid]):
                    # keep first witnesses stable
                    merged = dict(cur[fid])
                    for t, w in new.items():
                        merged.setdefault(t, w)
                    for t in list(merged):
                        if t not in new:
                            merged.pop(t)
                    cur[fid] = merged
                    changed = True
            if rounds > 50:
                raise AnalysisBroken("exception-escape fixpoint did not converge")
        self.mt = cur
        self.rounds = rounds
        return cur

    def escaping(self, func, node=None):
        """types that may escape func (or the subtree node of func), with witnesses"""
        cur = self.compute()
        if node is None:
            return cur[func.id]
        out = self._subtree(func, node, cur)
        out.pop("<rethrow>", None)
        return out

    def chain(self, func, ty, limit=12):
        """call chain from func to the throw site of type ty"""
        cur = self.compute()
        out = []
        f = func
        seen = set()
        while f is not None and len(out) < limit:
            w = cur.get(f.id, {}).get(ty)
            if w is None:
                break
            kind, loc, detail = w
            if kind == "call":
                g = self.facts.funcs.get(detail)
                out.append("%s calls %s at %s" % (f.name, g.name if g else detail, loc))
                if detail in seen:
                    break
                seen.add(detail)
                f = g
            elif kind == "libcall":
                out.append("%s calls %s at %s (may throw %s)" % (f.name, detail, loc, ty))
                break
            else:
                out.append("%s throws %s at %s" % (f.name, ty, loc))
                break
        return out
