"""Whole-program engines over the fact base: call graph (G-CG), write-set summaries (G-WS),
exception escape (G-EXC)."""
from . import astq
from .facts import walk, AnalysisBroken


class Program:
    def __init__(self, facts):
        self.facts = facts
        self._overriders = None
        self._callees = {}
        self._ws = None
        self._fnptr_targets = None

    # ------------------------------------------------------------------ G-CG
    def overriders(self):
        """virtual method id -> [Func] of all (transitive) overriders with bodies, plus itself."""
        if self._overriders is None:
            direct = {}
            for f in self.facts.funcs.values():
                for o in f.d.get("overrides", []):
                    direct.setdefault(o, set()).add(f.id)
            res = {}

            def collect(i, acc):
                for j in direct.get(i, ()):
                    if j not in acc:
                        acc.add(j)
                        collect(j, acc)
            for i in list(direct):
                acc = set()
                collect(i, acc)
                res[i] = acc
            self._overriders = res
        return self._overriders

    def resolve(self, cid, virt=False):
        """Functions (with bodies, in the repository) a call with callee id cid may enter."""
        out = []
        f = self.facts.funcs.get(cid)
        if f is not None:
            out.append(f)
        out.extend(self.facts.alts.get(cid, ()))
        for j in self.overriders().get(cid, ()):
            g = self.facts.funcs.get(j)
            if g is not None and g not in out:
                out.append(g)
        return out

    def fnptr_refs(self, func):
        """Functions whose address is taken (referenced not as direct callee) in func: registration sites."""
        out = []
        for n in func.nodes():
            if n["k"] == "ref" and n.get("dk") == "func":
                par = func.parent(n)
                if par is not None and par.get("k") in ("call", "mcall", "opcall") and par.get("fn") is n:
                    continue
                out.append(n)
            if n["k"] == "lambda" and n.get("fid"):
                out.append({"fid": n["fid"], "qn": "<lambda>", "l": n.get("l"), "k": "lambda"})
        return out

    def callees(self, func, include_fnptr=True):
        """[(call node or ref node, Func)] resolved callees with bodies in the repo."""
        if func.id in self._callees:
            return self._callees[func.id]
        out = []
        for n in func.nodes():
            if astq.is_call(n) and n.get("cid"):
                for g in self.resolve(n["cid"]):
                    out.append((n, g))
        if include_fnptr:
            for r in self.fnptr_refs(func):
                g = self.facts.funcs.get(r["fid"])
                if g is not None:
                    out.append((r, g))
        self._callees[func.id] = out
        return out

    def reachable(self, roots, stop=()):
        seen = {}
        st = []
        for r in roots:
            if r.id not in seen:
                seen[r.id] = (None, None)
                st.append(r)
        stop = set(stop)
        while st:
            f = st.pop()
            if f.id in stop:
                continue
            for (n, g) in self.callees(f):
                if g.id not in seen:
                    seen[g.id] = (f.id, n)
                    st.append(g)
        return seen

    def chain(self, seen, fid):
        """Call chain (list of 'name (file:line)') from a root to fid using the predecessor map of reachable()."""
        out = []
        cur = fid
        while cur is not None:
            f = self.facts.funcs[cur]
            pred, n = seen[cur]
            if pred is not None:
                pf = self.facts.funcs[pred]
                out.append("%s called at %s" % (f.name, pf.loc(n)))
            else:
                out.append("%s (entry, %s)" % (f.name, f.loc()))
            cur = pred
        return list(reversed(out))

    # ------------------------------------------------------------------ G-WS
    def _local_summary(self, func):
        """(direct writes, calls) with roots normalised to ('parm', index) / ('this',) / ('global', name)."""
        pidx = {p["d"]: i for i, p in enumerate(func.params)}
        pk = func.d.get("pk", "")

        def norm(p):
            root = p[0]
            if root[0] == "parm":
                i = pidx.get(root[1])
                if i is None:
                    return None   # parameter of an enclosing function (lambda capture) - ignore
                kind = pk[i] if i < len(pk) else "v"
                if kind in ("r", "m", "c"):
                    return (("parm", i),) + p[1:]
                if kind in ("p", "q"):
                    if len(p) > 1 and p[1] == "*":
                        return (("parm", i),) + p[1:]
                    return None
                return None
            if root[0] == "this":
                return p
            if root[0] == "global":
                return p
            return None  # local
        writes = []
        calls = []
        for (n, kind, ps, detail) in astq.write_events(func, lambda cid: (self.resolve(cid) or None)):
            if kind == "call":
                cid, binding = detail
                nb = {}
                for key, bps in binding.items():
                    nps = [q for q in (norm(p) for p in bps) if q is not None]
                    if nps:
                        nb[key] = nps
                calls.append((n, cid, nb))
            else:
                for p in ps:
                    q = norm(p)
                    if q is not None:
                        writes.append((q, n, kind, detail))
        return writes, calls

    def call_effects(self, func, call_node):
        """{caller-normalised path: witness} written by one call site (callee summaries substituted)."""
        ws = self.write_sets()
        _w, calls = self._local_summary(func)
        out = {}
        for (n, cid, binding) in calls:
            if n is not call_node:
                continue
            for g in self.resolve(cid):
                gpk = g.d.get("pk", "")
                for gp, wit in ws.get(g.id, {}).items():
                    root = gp[0]
                    if root[0] == "global":
                        out.setdefault(gp, wit)
                        continue
                    if root[0] == "this":
                        bps = binding.get("this")
                        rest = gp[2:] if len(gp) > 1 and gp[1] == "*" else gp[1:]
                    else:
                        i = root[1]
                        bps = binding.get(i)
                        kind = gpk[i] if i < len(gpk) else "v"
                        rest = gp[2:] if kind in ("p", "q") else gp[1:]
                    for bp in (bps or []):
                        out.setdefault(bp + rest, wit)
        return out

    def write_sets(self):
        """func id -> {path: witness} least fixpoint. witness = (func id, node loc, kind, via) of one writer."""
        if self._ws is not None:
            return self._ws
        local = {}
        ws = {}
        for f in self.facts.funcs.values():
            if f.body is None:
                continue
            w, c = self._local_summary(f)
            local[f.id] = (w, c)
            ws[f.id] = {}
            for (p, n, kind, detail) in w:
                ws[f.id].setdefault(p, (f.id, f.loc(n), kind, detail))
        changed = True
        rounds = 0
        while changed:
            changed = False
            rounds += 1
            for fid, (w, calls) in local.items():
                cur = ws[fid]
                for (n, cid, binding) in calls:
                    for g in self.resolve(cid):
                        gs = ws.get(g.id)
                        if not gs:
                            continue
                        gpk = g.d.get("pk", "")
                        for gp, wit in list(gs.items()):
                            root = gp[0]
                            if root[0] == "global":
                                if gp not in cur:
                                    cur[gp] = wit
                                    changed = True
                                continue
                            if root[0] == "this":
                                bps = binding.get("this")
                                rest = gp[2:] if len(gp) > 1 and gp[1] == "*" else gp[1:]
                            else:
                                i = root[1]
                                bps = binding.get(i)
                                kind = gpk[i] if i < len(gpk) else "v"
                                if kind in ("p", "q"):
                                    rest = gp[2:]
                                else:
                                    rest = gp[1:]
                            if not bps:
                                continue
                            for bp in bps:
                                np_ = bp + rest
                                if len(np_) > 8:
                                    np_ = np_[:8]
                                if np_ not in cur:
                                    cur[np_] = wit
                                    changed = True
            if rounds > 60:
                raise AnalysisBroken("write-set fixpoint did not converge")
        self._ws = ws
        self.ws_rounds = rounds
        return ws
