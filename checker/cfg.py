"""CFG queries over the clang::CFG emitted by the extractor (all sub-expressions are elements).

Blocks that contain a no-return element (exit, abort, __assert_fail, throw is handled by clang as a
terminator with no normal successor) have their successors removed, so "reaches the function exit"
means "returns normally".
"""
from .facts import walk


class CFG:
    def __init__(self, func):
        self.func = func
        c = func.d.get("cfg")
        if not c:
            raise ValueError("no CFG for %s" % func.name)
        self.entry = c["entry"]
        self.exit = c["exit"]
        self.blocks = {b["b"]: b for b in c["blocks"]}
        self.succ = {}
        self.pred = {b: [] for b in self.blocks}
        self.pos = {}      # node id -> (block, index)
        for b in c["blocks"]:
            bid = b["b"]
            s = [x for x in b["succ"]]
            if b.get("noret"):
                s = []
            # a two-way branch on a compile-time constant (assert(!"text"), if (false)): drop the infeasible edge
            if len(s) == 2 and "tcond" in b and b.get("tk") != "SwitchStmt":
                tn = func.node_by_id(b["tcond"])
                cv = None
                if tn is not None:
                    cv = tn.get("cv")
                    if cv is None and tn.get("k") == "bool":
                        cv = 1 if tn["v"] else 0
                    if cv is None and tn.get("k") == "un" and tn.get("op") == "!" and tn["e"].get("k") == "str":
                        cv = 0
                if cv is not None:
                    s = [s[0], None] if cv else [None, s[1]]
            self.succ[bid] = s
            for i, e in enumerate(b["el"]):
                self.pos.setdefault(e, (bid, i))
        for b, ss in self.succ.items():
            for s in ss:
                if s is not None:
                    self.pred[s].append(b)
        self._dom = None
        self._reach_cache = {}
        self._subtree_pos = {}

    # ---------------------------------------------------------------- basics
    def succs(self, b):
        return [s for s in self.succ[b] if s is not None]

    def reachable_from(self, start, removed_blocks=(), removed_edges=()):
        removed_blocks = set(removed_blocks)
        removed_edges = set(removed_edges)
        seen = set()
        if start in removed_blocks:
            return seen
        st = [start]
        seen.add(start)
        while st:
            x = st.pop()
            for s in self.succs(x):
                if s in seen or s in removed_blocks or (x, s) in removed_edges:
                    continue
                seen.add(s)
                st.append(s)
        return seen

    def reachable_blocks(self):
        if "all" not in self._reach_cache:
            self._reach_cache["all"] = self.reachable_from(self.entry)
        return self._reach_cache["all"]

    def position(self, node):
        """(block, index) of an AST node: its own CFG element, or that of the first descendant that is one,
        (statements like 'if'/'return' are terminators or contain elements)."""
        nid = node["id"]
        if nid in self.pos:
            return self.pos[nid]
        if nid in self._subtree_pos:
            return self._subtree_pos[nid]
        r = None
        for n in walk(node):
            if n.get("id") in self.pos:
                r = self.pos[n["id"]]
                break
        self._subtree_pos[nid] = r
        return r

    # ---------------------------------------------------------------- dominators (block level)
    def dominators(self):
        if self._dom is not None:
            return self._dom
        reach = self.reachable_blocks()
        order = []
        seen = set()

        def dfs(b):
            st = [(b, iter(self.succs(b)))]
            seen.add(b)
            while st:
                x, it = st[-1]
                adv = False
                for s in it:
                    if s not in seen:
                        seen.add(s)
                        st.append((s, iter(self.succs(s))))
                        adv = True
                        break
                if not adv:
                    order.append(x)
                    st.pop()
        dfs(self.entry)
        rpo = list(reversed(order))
        idx = {b: i for i, b in enumerate(rpo)}
        idom = {self.entry: self.entry}
        changed = True
        while changed:
            changed = False
            for b in rpo[1:]:
                ps = [p for p in self.pred[b] if p in idom and p in reach]
                if not ps:
                    continue
                new = ps[0]
                for p in ps[1:]:
                    a, c = p, new
                    while a != c:
                        while idx[a] > idx[c]:
                            a = idom[a]
                        while idx[c] > idx[a]:
                            c = idom[c]
                    new = a
                if idom.get(b) != new:
                    idom[b] = new
                    changed = True
        self._dom = idom
        return idom

    def dominates_block(self, a, b):
        idom = self.dominators()
        if b not in idom or a not in idom:
            return False
        x = b
        while True:
            if x == a:
                return True
            if x == self.entry:
                return False
            x = idom[x]

    def dominates(self, na, nb):
        """AST node na is evaluated on every path from entry before nb is."""
        pa, pb = self.position(na), self.position(nb)
        if pa is None or pb is None:
            return False
        if pa[0] == pb[0]:
            return pa[1] < pb[1]
        return self.dominates_block(pa[0], pb[0])

    # ---------------------------------------------------------------- conditional edges
    def cond_edges(self):
        """[(block, succ, cond_node_id, truth)] for two-way branches (succ[0]=true, succ[1]=false)."""
        if getattr(self, "_cond_edges", None) is not None:
            return self._cond_edges
        out = []
        for bid, b in self.blocks.items():
            if "tcond" not in b:
                continue
            if b.get("tk") in ("SwitchStmt",):
                continue
            ss = self.succ[bid]
            if len(ss) == 2:
                c, flip = self._effective_cond(b["tcond"])
                if ss[0] is not None:
                    out.append((bid, ss[0], c, not flip))
                if ss[1] is not None:
                    out.append((bid, ss[1], c, flip))
        self._cond_edges = out
        return out

    def _effective_cond(self, cid):
        """The operand whose value decides this branch: clang reports the whole `A && B` as the condition of the
        block that evaluates its last operand; `!x` is folded into the edge polarity."""
        flip = False
        n = self.func.node_by_id(cid)
        while n is not None:
            if n.get("k") == "bin" and n.get("op") in ("&&", "||"):
                n = n["rhs"]
            elif n.get("k") == "un" and n.get("op") == "!":
                n = n["e"]
                flip = not flip
            else:
                break
        return (n["id"] if n is not None else cid), flip

    def guards_of_block(self, blk):
        """Set of (cond_node_id, truth) such that every path entry->blk traverses an edge labelled with it."""
        key = ("guards", blk)
        if key in self._reach_cache:
            return self._reach_cache[key]
        res = set()
        if blk in self.reachable_blocks():
            # group edges by label: all edges with same (cond,truth) removed together
            bylabel = {}
            for (a, s, c, t) in self.cond_edges():
                bylabel.setdefault((c, t), []).append((a, s))
            for lab, edges in bylabel.items():
                if blk not in self.reachable_from(self.entry, removed_edges=edges):
                    res.add(lab)
        self._reach_cache[key] = res
        return res

    def guards_of(self, node):
        p = self.position(node)
        if p is None:
            return set()
        return self.guards_of_block(p[0])

    def switch_labels_of_block(self, blk):
        """Case labels (label stmt node ids) L such that every path to blk passes through the block labelled L
        or one of a set of labels -> returns the set of label ids of label-blocks that can reach blk without
        passing through the switch head again (used for 'which case group is this statement in')."""
        out = set()
        for bid, b in self.blocks.items():
            if "label" in b and blk in self.reachable_from(bid):
                out.add(b["label"])
        return out

    # ---------------------------------------------------------------- path queries
    def blocks_of_nodes(self, nodes):
        s = set()
        for n in nodes:
            p = self.position(n)
            if p:
                s.add(p[0])
        return s

    def can_reach_exit_avoiding(self, start_block, avoid_blocks):
        r = self.reachable_from(start_block, removed_blocks=set(avoid_blocks) - {start_block})
        return self.exit in r

    def must_pass_from_block(self, start_block, nodes):
        """every path from the beginning of start_block to the function exit evaluates one of nodes"""
        blocks = self.blocks_of_nodes(nodes)
        if start_block in blocks:
            return True
        return self.exit not in self.reachable_from(start_block, removed_blocks=blocks)

    def must_pass_after(self, node, nodes):
        """every path from just after node to the function exit evaluates one of nodes"""
        p = self.position(node)
        if p is None:
            return False
        for n in nodes:
            q = self.position(n)
            if q and q[0] == p[0] and q[1] > p[1]:
                return True
        blocks = self.blocks_of_nodes(nodes) - {p[0]}
        r = set()
        for s in self.succs(p[0]):
            if s not in blocks:
                r |= self.reachable_from(s, removed_blocks=blocks)
        return self.exit not in r

    def exists_path(self, from_block, to_block, avoid_blocks=()):
        r = self.reachable_from(from_block, removed_blocks=set(avoid_blocks) - {from_block})
        return to_block in r

    def return_nodes(self):
        return [n for n in self.func.nodes() if n["k"] == "return"]
