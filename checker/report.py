"""Check context: rule instances (obligations), known findings, evidence, exit codes.

exit 0: every instance held, or only instances listed in known_findings.json failed
exit 1: + 'VIOLATION property=<id> replay=<path>' for every failing instance not listed
exit 2: analysis broken (anchor gone, unit unparsable, rule under its instance floor, control not firing)
"""
import json
import os
import re
import sys
import time

from .facts import VERIF, AnalysisBroken
from . import facts as F

KNOWN = os.path.join(VERIF, "known_findings.json")
EVIDENCE = os.path.join(VERIF, "evidence")


def load_known():
    try:
        with open(KNOWN) as fh:
            d = json.load(fh)
    except FileNotFoundError:
        return {"findings": [], "fixed": []}
    return d


class Ctx:
    def __init__(self, pid, tier, facts, program, seed=0):
        self.pid = pid
        self.tier = tier
        self.facts = facts
        self.prog = program
        self.seed = seed
        self.t0 = time.time()
        self.instances = []     # dict(rule,key,ok,loc,what,detail)
        self.sites = 0          # evaluations: sites inspected
        self.floors = []        # (rule, have, need)
        self.notes = []
        self.rules = {}         # rule -> description
        self.controls = []      # (rule, name, fired_expected, ok)
        self.extra = {}

    # -------------------------------------------------------------- registration
    def rule(self, rid, text):
        self.rules[rid] = text

    def site(self, n=1):
        self.sites += n

    def ok(self, rule, key, loc, what, detail=None):
        self.instances.append(dict(rule=rule, key=key, ok=True, loc=loc, what=what, detail=detail))

    def fail(self, rule, key, loc, what, detail=None):
        self.instances.append(dict(rule=rule, key=key, ok=False, loc=loc, what=what, detail=detail))

    def inst(self, cond, rule, key, loc, what_ok, what_fail=None, detail=None):
        if cond:
            self.ok(rule, key, loc, what_ok, detail)
        else:
            self.fail(rule, key, loc, what_fail or ("NOT: " + what_ok), detail)
        return cond

    def floor(self, rule, have, need, what=""):
        self.floors.append((rule, have, need, what))
        if have < need:
            raise AnalysisBroken("%s: only %d instance(s) matched, floor is %d (%s) - the rule would pass vacuously"
                                 % (rule, have, need, what))

    def control(self, rule, name, expected, got):
        ok = (expected == got)
        self.controls.append(dict(rule=rule, name=name, expected=expected, got=got, ok=ok))
        if not ok:
            raise AnalysisBroken("%s: self-test control '%s' expected %s, got %s" % (rule, name, expected, got))

    def note(self, s):
        self.notes.append(s)

    # -------------------------------------------------------------- finish
    def finish(self, explanation, trusted_base, assumptions, declined=None):
        known = load_known()
        kset = {}
        for k in known.get("findings", []):
            if k.get("property") == self.pid:
                kset[k["key"]] = k
        fails = [i for i in self.instances if not i["ok"]]
        # several sites may share a semantic key; group
        bykey = {}
        for i in fails:
            bykey.setdefault(i["rule"] + ":" + i["key"], []).append(i)
        viol = []
        knownhits = []
        for key, lst in sorted(bykey.items()):
            if key in kset:
                knownhits.append((key, lst))
            else:
                viol.append((key, lst))
        os.makedirs(os.path.join(EVIDENCE, "violations"), exist_ok=True)
        # remove stale violation files of this property
        vdir = os.path.join(EVIDENCE, "violations")
        for f in os.listdir(vdir):
            if f.startswith(self.pid + "-"):
                os.unlink(os.path.join(vdir, f))
        for key, lst in knownhits:
            print("KNOWN-FINDING: property=%s %s %s [%s]" % (self.pid, key, lst[0]["what"], lst[0]["loc"]))
        unused_known = [k for k in kset if k not in bykey]
        for k in unused_known:
            print("note: known finding %s no longer reproduces (property=%s); move it to 'fixed' in known_findings.json"
                  % (k, self.pid))
        for key, lst in viol:
            import hashlib
            safe = re.sub(r"[^A-Za-z0-9_.=-]+", "_", key)[:100] + "-" + hashlib.sha1(key.encode()).hexdigest()[:6]
            path = os.path.join(vdir, "%s-%s.json" % (self.pid, safe))
            with open(path, "w") as fh:
                json.dump({"property": self.pid, "rule": lst[0]["rule"], "rule_text": self.rules.get(lst[0]["rule"], ""),
                           "instance": key, "sites": lst, "tree_hash": self.facts.tree_hash,
                           "how_to_read": "each site names file:line in /repo, the function and what failed; "
                                          "./check %s --explain %s" % (self.pid, path)}, fh, indent=1)
            for i in lst[:3]:
                print("  %s %s at %s: %s" % (i["rule"], i["key"], i["loc"], i["what"]))
            print("VIOLATION property=%s replay=%s" % (self.pid, path))
        n_obl = len(self.instances)
        n_ok = len([i for i in self.instances if i["ok"]])
        keys = {i["rule"] + ":" + i["key"] for i in self.instances}
        samples = []
        seen_rules = set()
        for i in self.instances:
            if i["rule"] not in seen_rules or not i["ok"]:
                seen_rules.add(i["rule"])
                samples.append({"rule": i["rule"], "instance": i["key"], "verdict": "holds" if i["ok"] else
                                ("known-finding" if i["rule"] + ":" + i["key"] in kset else "VIOLATION"),
                                "site": i["loc"], "what": i["what"]})
        samples = samples[:60]
        ev = {
            "property_id": self.pid,
            "tier": self.tier,
            "seed": self.seed,
            "level": "other",
            "coverage": {
                "explanation": explanation,
                "obligations": n_obl,
                "discharged": n_ok,
                "evaluations": max(self.sites, n_obl),
                "distinct_nontrivial": len(keys),
                "rule": "one obligation per rule instance found in /repo's current source (instances are enumerated "
                        "from the resolved AST/CFG, never from text); distinct = distinct semantic instance keys; "
                        "every counted instance has at least one real source site",
                "samples": samples,
                "rules": self.rules,
                "instance_floors": [dict(rule=r, matched=h, floor=n, what=w) for (r, h, n, w) in self.floors],
                "controls": self.controls,
                "checker_cmd": "./check %s --tier %s" % (self.pid, self.tier),
                "trusted_base": trusted_base,
                "units_analysed": [u["unit"] for u in self.facts.raw_units],
                "functions_in_fact_base": len(self.facts.funcs),
                "tree_hash": self.facts.tree_hash,
                "source_root": F.REPO,
                "known_findings_reported": [k for k, _ in knownhits],
                "declined": declined or [],
                "notes": self.notes,
                "exhaustive": False,
            },
            "assumptions": assumptions,
            "wall_s": round(time.time() - self.t0, 2),
            "violations": len(viol),
        }
        ev["coverage"].update(self.extra)
        os.makedirs(EVIDENCE, exist_ok=True)
        tmp = os.path.join(EVIDENCE, self.pid + ".json.tmp")
        with open(tmp, "w") as fh:
            json.dump(ev, fh, indent=1)
        os.replace(tmp, os.path.join(EVIDENCE, self.pid + ".json"))
        print("%s [%s]: %d rule instances, %d hold, %d known finding(s), %d violation(s); %d sites inspected; %.1fs"
              % (self.pid, self.tier, n_obl, n_ok, len(knownhits), len(viol), ev["coverage"]["evaluations"],
                 ev["wall_s"]))
        return 1 if viol else 0
