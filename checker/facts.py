"""Fact base: compile database synthesis, extraction (parallel, cached), loading and indexing.

Nothing here runs any code of /repo. The only program executed is /verif/build/extract
(clang LibTooling, -fsyntax-only semantics) on the sources named by /repo/Makefile.am.
"""
import hashlib
import json
import os
import re
import shutil
import subprocess
import sys
import time
from concurrent.futures import ThreadPoolExecutor

VERIF = os.path.dirname(os.path.dirname(os.path.abspath(__file__)))
REPO = os.environ.get("VERIF_REPO", "/repo")
BUILD = os.path.join(VERIF, "build")
EXTRACT = os.path.join(BUILD, "extract")

SOURCE_LISTS = ["libbitcoin_a_SOURCES", "libbitcoin_deb_a_SOURCES", "libkerl_a_SOURCES",
                "btcdeb_SOURCES", "btcc_SOURCES", "tap_SOURCES"]


class AnalysisBroken(Exception):
    """The analysis could not be carried out (exit 2): never a pass, never a violation."""


def parse_makefile_am(repo=None):
    repo = repo or REPO
    path = os.path.join(repo, "Makefile.am")
    try:
        text = open(path).read()
    except OSError as e:
        raise AnalysisBroken("cannot read %s: %s" % (path, e))
    text = re.sub(r"\\\n", " ", text)
    lists = {}
    for line in text.splitlines():
        m = re.match(r"\s*(\w+)\s*\+?=\s*(.*)$", line)
        if m:
            lists.setdefault(m.group(1), []).extend(m.group(2).split())
    units = {}   # unit -> set(programs/libs)
    for name in SOURCE_LISTS:
        if name not in lists:
            raise AnalysisBroken("Makefile.am: %s not found" % name)
        for tok in lists[name]:
            if tok.endswith((".cpp", ".c", ".cc")):
                units.setdefault(tok, set()).add(name[:-len("_SOURCES")])
    return units


_rd = []


def resource_dir():
    if _rd:
        return _rd[0]
    try:
        _rd.append(subprocess.check_output(["clang", "-print-resource-dir"], text=True).strip())
    except Exception as e:
        raise AnalysisBroken("clang not runnable: %s" % e)
    return _rd[0]


def flags_for(unit, repo=None):
    repo = repo or REPO
    rd = resource_dir()
    if unit.endswith(".c"):
        # the real build compiles kerl.c with DEFS = -DHAVE_CONFIG_H (kerl.h includes the config header, which selects the
        # readline / history code paths)
        fl = ["-std=gnu99", "-DHAVE_CONFIG_H", "-I" + os.path.join(repo, "kerl"), "-I" + repo, "-I" + os.path.join(repo, "config"),
              "-UNDEBUG", "-w", "-resource-dir", rd]
        if not os.path.exists(os.path.join(repo, "config", "bitcoin-config.h")):
            fl.insert(4, "-I" + os.path.join(BUILD, "genconfig"))
        return fl
    fl = ["-std=gnu++17", "-DHAVE_CONFIG_H", "-I" + repo, "-I" + os.path.join(repo, "config"),
          "-I" + os.path.join(repo, "secp256k1/include"), "-UNDEBUG", "-w", "-resource-dir", rd]
    if not os.path.exists(os.path.join(repo, "config", "bitcoin-config.h")):
        fl.insert(4, "-I" + os.path.join(BUILD, "genconfig"))
    return fl


def tree_hash(repo=None):
    """Hash of every file that can influence the analysis (all sources/headers outside secp256k1)."""
    repo = repo or REPO
    h = hashlib.sha256()
    paths = []
    for root, dirs, files in os.walk(repo):
        rel = os.path.relpath(root, repo)
        if rel == ".":
            dirs[:] = [d for d in dirs if d not in (".git", "secp256k1", "autom4te.cache", "build-aux", ".deps")]
        dirs[:] = [d for d in dirs if d != ".deps"]
        for f in files:
            if f.endswith((".h", ".hpp", ".cpp", ".c", ".cc")) or f == "Makefile.am":
                paths.append(os.path.join(root, f))
    for p in sorted(paths):
        h.update(os.path.relpath(p, repo).encode())
        h.update(b"\0")
        with open(p, "rb") as fh:
            h.update(fh.read())
        h.update(b"\0")
    with open(os.path.join(VERIF, "tools/extract/extract.cc"), "rb") as fh:
        h.update(fh.read())
    # the flags the units are parsed with are part of what was analysed
    h.update(repr([x.replace(repo, "$R") for x in flags_for("u.c", repo) + flags_for("u.cpp", repo)]).encode())
    return h.hexdigest()[:24]


def ensure_extractor():
    src = os.path.join(VERIF, "tools/extract/extract.cc")
    if os.path.exists(EXTRACT) and os.path.getmtime(EXTRACT) >= os.path.getmtime(src):
        return
    os.makedirs(BUILD, exist_ok=True)
    cxx = subprocess.check_output(["llvm-config-14", "--cxxflags"], text=True).split()
    cmd = ["clang++"] + cxx + ["-fno-rtti", "-O1", src, "-o", EXTRACT,
                                "/usr/lib/llvm-14/lib/libclang-cpp.so.14", "/usr/lib/llvm-14/lib/libLLVM-14.so"]
    r = subprocess.run(cmd, capture_output=True, text=True)
    if r.returncode != 0:
        raise AnalysisBroken("extractor build failed:\n" + r.stderr[-3000:])


def ensure_config_header(repo=None):
    repo = repo or REPO
    p = os.path.join(repo, "config", "bitcoin-config.h")
    if not os.path.exists(p) and not os.path.exists(os.path.join(BUILD, "genconfig", "bitcoin-config.h")):
        raise AnalysisBroken("config/bitcoin-config.h missing in %s (tree not configured; run ./configure or setup)" % repo)


def _extract_unit(args):
    unit, outdir, repo = args
    out = os.path.join(outdir, unit.replace("/", "__") + ".json")
    src = os.path.join(repo, unit)
    if not os.path.exists(src):
        return unit, None, "source missing: " + src
    cmd = [EXTRACT, out, repo, src, "--"] + flags_for(unit, repo)
    r = subprocess.run(cmd, capture_output=True, text=True)
    if r.returncode != 0 or not os.path.exists(out):
        return unit, None, (r.stderr or r.stdout)[-2000:]
    return unit, out, None


def extract_all(repo=None, use_cache=True, verbose=False):
    """Returns path of merged fact file for the current tree."""
    repo = repo or REPO
    ensure_extractor()
    ensure_config_header(repo)
    units = parse_makefile_am(repo)
    th = tree_hash(repo)
    outdir = os.path.join(BUILD, "facts", th)
    merged = os.path.join(outdir, "merged.json")
    if use_cache and os.path.exists(merged):
        return merged, th, False
    os.makedirs(outdir, exist_ok=True)
    t0 = time.time()
    # per-process scratch directory for the unit files: several checks may extract the same tree at the same time
    unitdir = os.path.join(outdir, "units.%d" % os.getpid())
    os.makedirs(unitdir, exist_ok=True)
    with ThreadPoolExecutor(max_workers=16) as ex:
        results = list(ex.map(_extract_unit, [(u, unitdir, repo) for u in sorted(units)]))
    bad = [(u, e) for (u, o, e) in results if e]
    if bad:
        raise AnalysisBroken("extraction failed for %d unit(s): %s" % (len(bad), "; ".join("%s: %s" % b for b in bad)))
    funcs = {}
    enums = {}
    records = {}
    vars_ = {}
    unit_info = []
    for (u, o, _e) in results:
        with open(o) as fh:
            d = json.load(fh)
        if d.get("errors"):
            raise AnalysisBroken("unit %s did not parse cleanly under clang" % u)
        nf = 0
        for f in d["funcs"]:
            if f["id"] not in funcs:
                f["unit"] = u
                funcs[f["id"]] = f
                nf += 1
            else:
                g = funcs[f["id"]]
                if (g["file"], g["line"]) != (f["file"], f["line"]):
                    # same external symbol defined in units of different programs: keep both
                    f["unit"] = u
                    f["alt_of"] = f["id"]
                    f["id"] = f["id"] + "@" + u
                    if f["id"] not in funcs:
                        funcs[f["id"]] = f
                        nf += 1
        for e in d["enums"]:
            enums.setdefault(e["name"] + "@" + e["file"] + ":" + str(e["line"]), e)
        for r_ in d["records"]:
            records.setdefault(r_["name"], r_)
        for v in d["vars"]:
            key = v["name"] + ("@" + u if v.get("internal") else "")
            if key not in vars_:
                v["unit"] = u
                vars_[key] = v
        unit_info.append({"unit": u, "targets": sorted(units[u]), "funcs": len(d["funcs"]), "new_funcs": nf})
        os.unlink(o)
    out = {"tree_hash": th, "repo": repo, "units": unit_info, "funcs": list(funcs.values()),
           "enums": list(enums.values()), "records": list(records.values()), "vars": list(vars_.values()),
           "extract_s": round(time.time() - t0, 2)}
    tmp = merged + ".tmp.%d" % os.getpid()
    with open(tmp, "w") as fh:
        fh.write(json.dumps(out, separators=(",", ":")))
    os.replace(tmp, merged)
    shutil.rmtree(unitdir, ignore_errors=True)
    # prune old caches (keep 3 most recent)
    root = os.path.join(BUILD, "facts")
    now = time.time()
    ds = []
    for d in os.listdir(root):
        try:
            ds.append((os.path.getmtime(os.path.join(root, d)), d))
        except OSError:
            pass
    ds.sort()
    for mt, d in ds[:-12]:
        if now - mt > 900:      # never touch a directory another (parallel) extraction may still be writing
            subprocess.run(["rm", "-rf", os.path.join(root, d)])
    return merged, th, True


# --------------------------------------------------------------------------- index

CHILD_KEYS = ("base", "obj", "fn", "args", "lhs", "rhs", "e", "cond", "then", "else", "idx", "size", "init",
              "ch", "caps", "body", "sub", "condvar", "inc", "range", "handlers", "decls", "default")


def children(n):
    """Direct child nodes of an AST node (dict), in source order where meaningful."""
    out = []
    for k in CHILD_KEYS:
        v = n.get(k)
        if v is None:
            continue
        if isinstance(v, dict):
            if "k" in v or "body" in v or "init" in v:
                out.append(v)
        elif isinstance(v, list):
            for x in v:
                if isinstance(x, dict):
                    out.append(x)
    return out


def walk(n):
    """Pre-order walk of all AST nodes (dicts with 'k'); decl entries and handlers are traversed through."""
    stack = [n]
    while stack:
        x = stack.pop()
        if x is None:
            continue
        if isinstance(x, dict):
            if "k" in x:
                yield x
            stack.extend(reversed(children(x)))


class Func:
    def __init__(self, d):
        self.d = d
        self.id = d["id"]
        self.name = d["name"]
        self.short = d.get("short", "")
        self.file = d["file"]
        self.line = d["line"]
        self.body = d.get("body")
        self.params = d.get("params", [])
        self.rec = d.get("rec")
        self.unit = d.get("unit")
        self._nodes = None
        self._parent = None
        self._cfg = None
        self._aliases = None

    def __repr__(self):
        return "<Func %s %s:%d>" % (self.name, self.file, self.line)

    def all_roots(self):
        roots = []
        for i in self.d.get("inits", []):
            if i.get("e"):
                roots.append(i["e"])
        if self.body:
            roots.append(self.body)
        return roots

    def nodes(self):
        if self._nodes is None:
            self._nodes = []
            for r in self.all_roots():
                self._nodes.extend(walk(r))
        return self._nodes

    def node_by_id(self, i):
        if not hasattr(self, "_byid"):
            self._byid = {n["id"]: n for n in self.nodes() if "id" in n}
        return self._byid.get(i)

    def parent_map(self):
        if self._parent is None:
            pm = {}
            for r in self.all_roots():
                st = [r]
                while st:
                    x = st.pop()
                    for c in children(x):
                        pm[id(c)] = x
                        st.append(c)
            self._parent = pm
        return self._parent

    def parent(self, n):
        return self.parent_map().get(id(n))

    def ancestors(self, n):
        p = self.parent(n)
        while p is not None:
            yield p
            p = self.parent(p)

    def loc(self, n=None):
        if n is None:
            return "%s:%d" % (self.file, self.line)
        return "%s:%d" % (n.get("f", self.file), n.get("l", 0))

    def cfg(self):
        if self._cfg is None:
            from . import cfg as cfgmod
            self._cfg = cfgmod.CFG(self)
        return self._cfg


class Facts:
    def __init__(self, path):
        t0 = time.time()
        with open(path) as fh:
            d = json.load(fh)
        self.raw_units = d["units"]
        self.tree_hash = d["tree_hash"]
        self.repo = d["repo"]
        self.funcs = {}
        self.by_name = {}
        self.alts = {}
        for f in d["funcs"]:
            fn = Func(f)
            self.funcs[fn.id] = fn
            self.by_name.setdefault(fn.name, []).append(fn)
            if f.get("alt_of"):
                self.alts.setdefault(f["alt_of"], []).append(fn)
        self.enums = d["enums"]
        self.records = {r["name"]: r for r in d["records"]}
        self.vars = d["vars"]
        self.vars_by_name = {}
        for v in self.vars:
            self.vars_by_name.setdefault(v["name"], []).append(v)
        self.load_s = time.time() - t0

    # ---- lookup helpers; an anchor that does not resolve is AnalysisBroken
    def fn(self, name, file=None, nparams=None, param_ct=None, unique=True, optional=False):
        c = list(self.by_name.get(name, []))
        if file:
            c = [f for f in c if f.file == file]
        if nparams is not None:
            c = [f for f in c if len(f.params) == nparams]
        if param_ct is not None:
            c = [f for f in c if [p["ct"] for p in f.params][:len(param_ct)] == list(param_ct)]
        if not c:
            if optional:
                return None
            raise AnalysisBroken("anchor function not found: %s%s" % (name, " in " + file if file else ""))
        if unique and len(c) > 1:
            # same function emitted from different units with different ids (internal linkage in header)
            ids = {(f.file, f.line) for f in c}
            if len(ids) > 1:
                raise AnalysisBroken("anchor function ambiguous: %s -> %s" % (name, sorted(ids)))
        return c[0]

    def fns(self, name, file=None):
        c = list(self.by_name.get(name, []))
        if file:
            c = [f for f in c if f.file == file]
        # dedupe header copies
        seen = {}
        for f in c:
            seen.setdefault((f.file, f.line), f)
        return list(seen.values())

    def enum(self, name):
        c = [e for e in self.enums if e["name"] == name]
        if not c:
            raise AnalysisBroken("anchor enum not found: " + name)
        return c[0]

    def var(self, name, optional=False):
        c = self.vars_by_name.get(name, [])
        if not c:
            if optional:
                return None
            raise AnalysisBroken("anchor variable not found: " + name)
        return c[0]

    def record(self, name):
        if name not in self.records:
            raise AnalysisBroken("anchor record not found: " + name)
        return self.records[name]

    def record_fields(self, name, inherited=True):
        r = self.record(name)
        out = []
        if inherited:
            for b in r.get("bases", []):
                if b in self.records:
                    out.extend(self.record_fields(b))
        out.extend(f["n"] for f in r["fields"])
        return out

    def is_base_of(self, base, derived):
        if base == derived:
            return True
        r = self.records.get(derived)
        if not r:
            return False
        return any(self.is_base_of(base, b) for b in r.get("bases", []))


_loaded = {}


def load(repo=None, use_cache=True):
    repo = repo or REPO
    path, th, fresh = extract_all(repo, use_cache=use_cache)
    if path not in _loaded:
        _loaded[path] = Facts(path)
        _loaded[path].fresh = fresh
    return _loaded[path]
