"""Engine controls: tiny conforming / violating examples (selftest/engines.cc) that every engine must judge correctly
on every run. A control that is judged wrongly makes the check exit 2 - a broken analysis never passes silently."""
import hashlib
import json
import os
import subprocess

from . import facts as F, engines, astq, purity, fd, structure as S

SRC = os.path.join(F.VERIF, "selftest", "engines.cc")


def _facts():
    h = hashlib.sha256(open(SRC, "rb").read() + open(os.path.join(F.VERIF, "tools/extract/extract.cc"), "rb").read()).hexdigest()[:20]
    outdir = os.path.join(F.BUILD, "selftest")
    os.makedirs(outdir, exist_ok=True)
    out = os.path.join(outdir, h + ".json")
    if not os.path.exists(out):
        F.ensure_extractor()
        root = os.path.dirname(SRC)
        cmd = [F.EXTRACT, out + ".tmp", root, SRC, "--", "-std=gnu++17", "-UNDEBUG", "-w", "-resource-dir", F.resource_dir()]
        r = subprocess.run(cmd, capture_output=True, text=True)
        if r.returncode != 0 or not os.path.exists(out + ".tmp"):
            raise F.AnalysisBroken("selftest extraction failed: %s" % (r.stderr or r.stdout)[-800:])
        d = json.load(open(out + ".tmp"))
        if d.get("errors"):
            raise F.AnalysisBroken("selftest/engines.cc does not parse")
        merged = {"tree_hash": h, "repo": root, "units": [{"unit": "engines.cc"}], "funcs": d["funcs"], "enums": d["enums"], "records": d["records"], "vars": d["vars"]}
        for f in merged["funcs"]:
            f["unit"] = "engines.cc"
        with open(out, "w") as fh:
            fh.write(json.dumps(merged))
        os.unlink(out + ".tmp")
    return F.Facts(out)


def run():
    """returns the list of control results; raises AnalysisBroken on the first wrong judgement"""
    fb = _facts()
    prog = engines.Program(fb)
    res = []

    def control(name, expected, got):
        ok = expected == got
        res.append({"control": name, "expected": str(expected), "got": str(got), "ok": ok})
        if not ok:
            raise F.AnalysisBroken("engine self-test control '%s': expected %s, got %s" % (name, expected, got))
    ws = prog.write_sets()
    w = fb.fn("ws_writer")
    got = sorted({astq.path_str(p) for p in ws[w.id]})
    control("write-set: alias, callee, member call, pointer field, ref param; not the value param",
            ["$0.a", "$0.b", "$0.v", "$1", "(*$0.p)"], got)
    control("write-set: const reader writes nothing", [], sorted(astq.path_str(p) for p in ws[fb.fn("ws_reader").id]))
    exc = engines.ExcEngine(prog)
    control("exceptions: caught by base-class handler", [], sorted(exc.escaping(fb.fn("ex_caught"))))
    control("exceptions: unrelated handler lets it escape", ["std::runtime_error"], sorted(exc.escaping(fb.fn("ex_wrong_handler"))))
    control("exceptions: rethrow", ["std::runtime_error"], sorted(exc.escaping(fb.fn("ex_rethrow"))))
    control("exceptions: catch (...)", [], sorted(exc.escaping(fb.fn("ex_catch_all"))))
    control("exceptions: through a function-pointer table", ["std::runtime_error"], sorted(exc.escaping(fb.fn("ex_indirect"))))
    g = fb.fn("cfg_guarded")
    use = [n for n in g.nodes() if n["k"] == "call" and n.get("n") == "cfg_use"][0]
    gs = sorted((astq.estr(g.node_by_id(c)), t) for (c, t) in g.cfg().guards_of(use))
    control("cfg: early return guards the continuation", [("(x < 3)", False)], gs)
    g = fb.fn("cfg_shortcircuit")
    use = [n for n in g.nodes() if n["k"] == "call" and n.get("n") == "cfg_use"][0]
    gs = sorted((astq.estr(g.node_by_id(c)), t) for (c, t) in g.cfg().guards_of(use))
    control("cfg: both operands of && guard the then-branch", [("(a > 0)", True), ("(b > 0)", True)], gs)
    g = fb.fn("cfg_reject")
    cfg = g.cfg()
    cond = [n for n in g.nodes() if n["k"] == "bin" and n["op"] == ">"][0]
    succ = [s for (b, s, c, t) in cfg.cond_edges() if c == cond["id"] and t][0]
    rets = [n for n in g.nodes() if n["k"] == "return" and astq.const_value(n.get("e")) == 0]
    control("cfg: true edge must pass `return false`", True, cfg.must_pass_from_block(succ, rets))
    other = [s for (b, s, c, t) in cfg.cond_edges() if c == cond["id"] and not t][0]
    control("cfg: false edge need not", False, cfg.must_pass_from_block(other, rets))
    g = fb.fn("cfg_noreturn")
    use = [n for n in g.nodes() if n["k"] == "call" and n.get("n") == "cfg_use"][0]
    gs = sorted((astq.estr(g.node_by_id(c)), t) for (c, t) in g.cfg().guards_of(use))
    control("cfg: abort() cuts the path", [("(x < 0)", False)], gs)
    g = fb.fn("impure")
    ifn = [n for n in g.nodes() if n["k"] == "if"][0]
    control("purity: region writing a field is mutating", True, bool(purity.mutations(prog, g, [ifn["then"]])))
    g = fb.fn("ws_reader")
    control("purity: read-only body is check-only", False, bool(purity.mutations(prog, g, [g.body])))
    g = fb.fn("fd_expr")
    e = [n for n in g.nodes() if n["k"] == "return"][0]["e"]
    control("fd: (h==0 ? 1 : h&3) over 0..7", [1, 1, 2, 3, 0, 1, 2, 3], [fd.ev(e, {"h": h}) for h in range(8)])
    # ---- G-SYM
    from . import symx
    X = symx.Explorer(prog, inline=lambda fn, n: fn.name.startswith("sym_"), transparent=lambda n: True)

    def rets(name, **params):
        f_ = fb.fn(name)
        outs = X.explore(f_, params={p["n"]: ("a", "p%d" % i) for i, p in enumerate(f_.params)})
        return sorted({(tuple(sorted((symx.show(t), v) for (t, v) in o.conds)), symx.show(o.ret)) for o in outs if o.status == "ret"})
    control("sym: helper extraction and a hoisted const local give the same term", rets("sym_inline"), rets("sym_helper"))
    control("sym: swapped stream operands give a different term", True, rets("sym_inline") != rets("sym_swapped"))
    control("sym: a wider operand type gives a different term", True, rets("sym_inline") != rets("sym_widened"))
    control("sym: range-for and canonical index loop give the same term", rets("sym_range"), rets("sym_index"))
    control("sym: if/else and ?: give the same outcomes", rets("sym_cond_if"), rets("sym_cond_q"))
    acc, last = rets("sym_acc"), rets("sym_last")
    control("sym: an accumulated flag refers to its previous value, an overwritten one does not", (True, False), (any("prev" in r for (_c, r) in acc), any("prev" in r for (_c, r) in last)))
    control("sym: regrouped offsets address the same element", rets("sym_off_a"), rets("sym_off_b"))
    return res
