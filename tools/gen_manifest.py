#!/usr/bin/env python3
"""Regenerates /verif/MANIFEST.json from the table below (single source of truth for claims)."""
import json
import os

VERIF = os.path.dirname(os.path.dirname(os.path.abspath(__file__)))

NOTE_COMMON = ("Trusted: clang 14 parser/Sema/CFG, the /verif extractor and rule engines (kept honest by positive "
               "controls and instance floors), libstdc++/libsecp256k1 as black boxes. The check decides the named "
               "structural clauses from /repo's current source on every run; it does not run btcdeb and does not decide "
               "the value-level behaviour.")

CLAIMS = {
    "C04": dict(
        text="Static write-set/restore-set analysis: everything one operation step may write (interprocedural, alias "
             "aware) must be restored by RewindScript; history vectors are pushed, popped on failure and restored in "
             "matching sets from the same field; the position counter moves by exactly one; refusals precede mutation. "
             "These are necessary conditions of 'rewind exactly undoes steps'; equality of continued outcomes is not decided. Also: every exception type that can escape the operation step is caught around the call by a handler that unconditionally restores and drops the snapshots.",
        technique="interprocedural write-set vs restore-set (dataflow over resolved call graph) + CFG pairing/dominance",
        design="DESIGN.md section 4, C04"),
}

CLAIMS["C10"] = dict(
    text="Every comparison against a consensus limit constant is enumerated from the resolved AST; the check decides that the "
         "constant has the consensus value, that the comparison rejects exactly the values above the limit (threshold arithmetic on "
         "compiler-evaluated operands), that its true edge is a rejection on every CFG path, that each limit is still enforced inside "
         "the operation step / session set-up, the counting shape of the op counter (before the executed test, under BASE/WITNESS_V0, "
         "key count added before its comparison, reset at script switches), the tapscript exemptions, and the 4/5-byte numeric operand "
         "sizes per opcode. That a script exactly at a limit succeeds is not decided.",
    technique="AST/CFG lint: limit-comparison polarity and threshold, must-pass rejection edges, guard dominance, per-opcode operand-size table",
    design="DESIGN.md section 4, C10")
CLAIMS["C08"] = dict(
    text="Exception-escape fixpoint (no explicit throw may leave btcdeb's main), stdout effect analysis (only print_stack(raw) may "
         "write stdout on the piped success path; writers are classified by quiet/verbose guards and failure-only continuations and "
         "propagated over the call graph), CFG shape of the piped branch (failure -> stderr + non-zero exit, success -> raw stack + 0) "
         "and dominance of the quiet&&verbose refusal over all argument parsing. The printed values themselves are not decided. Also: no call site discards the result of ContinueScript / the session stepper / Instance::step.",
    technique="exception-escape and stdout-effect analysis over the resolved call graph + CFG must-pass/dominance",
    design="DESIGN.md section 4, C08")

CLAIMS["C17"] = dict(
    text="Three-way label agreement (disabled-opcode gate == dispatcher case group == StepExtended handlers), exhaustiveness of "
         "parallel opcode arms / nested switches inside multi-label case groups, dominance of a rejecting zero/range test over every "
         "division, modulo and shift by script data, position and control of the gate (before the executed test, DISABLED_OPCODE, only "
         "-z can open it) and error discipline of StepExtended. What each opcode computes is not decided. Third round: the arithmetic opcodes push a value computed from CScriptNum-decoded operands, CAT/AND/OR/XOR push a value that depends on both operands on every successful path, and the bitwise ones succeed only after deciding equal operand lengths (G-SYM terms of StepExtended per opcode).",
    technique="table agreement over resolved enumerators + guard dominance on the CFG",
    design="DESIGN.md section 4, C17")

CLAIMS["C09"] = dict(
    text="Table agreement between the flag-name table and the SCRIPT_VERIFY_* enumerators (bijection, names, single bits, standard set "
         "covered, whole-string lookup), polarity and rejection edges of the +/- parser, and a polarity/purity classification of every "
         "read of the flag word in step-reachable code (each must be one of five restrictive forms F1-F5; the guarded regions are "
         "proved check-only with the write-set engine). Monotonicity then follows under the stated assumption that a region without "
         "observable writes cannot make a later operation succeed. Every write of the flag word in the driver (plain or compound assignment, ++/--, address-of, non-const reference) is counted: only the parser's result may be stored.",
    technique="table agreement + flag-read polarity classification with interprocedural region purity",
    design="DESIGN.md section 4, C09")

CLAIMS["C01"] = dict(
    text="Decides the domain, dispatch and internal-consistency clauses of the opcode loop: refusal domain == handler domain, "
         "exhaustive dispatch of every opcodetype enumerator, stack-size guard vs actual access depth in every case group "
         "(contradiction rule, incl. error codes and computed depths tested at the same stack height), exception-to-failed-step "
         "conversion, balance check and re-initialisation at every script switch, disabled-opcode gate before the executed test. "
         "The per-opcode value semantics (what OP_SUB computes) are NOT decided: no second implementation exists to compare with. Also: ConditionStack's members refine the operations of a stack of booleans (case analysis on the position of the first false value, evaluated with G-SYM).",
    technique="enumerator/case-label agreement, guard-vs-access contradiction analysis on the CFG, exception-escape analysis",
    design="DESIGN.md section 4, C01")

CLAIMS["C15"] = dict(
    text="Sixteen exact necessary conditions of crash-freedom over the btcdeb-authored units: the session driver never asserts on session state; the secp256k1 verification context is alive wherever it is used (call-graph rule per tool); no explicit throw leaves an entry point "
         "(mains, kerl callbacks); allocator/deallocator families agree; transaction-derived indices are range-checked before use; "
         "stores into fixed arrays are bounded; a failed fgets buffer is not read; division/shift by script data is guarded; "
         "assert-backed size preconditions are established at every authored call site; `default: assert(0)` of opcode switches is "
         "unreachable; no iterator into the exec temporary is stored. The universal statement (no UB for every input) is not decided. Third round: a transaction accepted by parse_transaction has an input (constant-index subscripts depend on it); length-limited writes into local arrays stay inside the array (offset + limit folds to a constant); assert-backed character preconditions hold for every value that reaches them; every recursion cycle of the call graph is a reviewed one with a nesting limit and no variable-length array across the recursive call; a constant subscript is smaller than the size its own path decided.",
    technique="exception-escape analysis, allocation-family provenance, guard dominance and bounded-index patterns on the CFG",
    design="DESIGN.md section 4, C15")
CLAIMS["C16"] = dict(
    text="Write-set of Instance::eval excludes the script position / remaining script / histories; a failing or throwing exec'd "
         "operation is reported without ending the session; eval runs the same operation step on the session environment with a local "
         "iterator; the operation step depends on its local_script parameter only for byte-source selection, pass-through and the "
         "iterator-store guard. Token classification and state equality with a reference are not decided.",
    technique="interprocedural write-set exclusion + parameter-use classification + exception-escape analysis",
    design="DESIGN.md section 4, C16")

CLAIMS["C07"] = dict(
    text="Sibling agreement of the tables and ladders the compiler output depends on: GetOpCode rows vs enumerators (every name, aliases "
         "included), GetOpName, consensus opcode bytes; the push-size ladder of writer / minimality judge / reader; the small-integer "
         "ladder of push_int64 / CheckMinimalPush / interpreter decode. Tokenisation and literal classification are value-level and not decided.",
    technique="table extraction from the resolved AST; class ladders read off the decided comparisons of each path (intervals over G-SYM outcomes); sibling agreement",
    design="DESIGN.md section 4, C07")

CLAIMS["C14"] = dict(
    text="Agreement of the `tf` command table with the inline dispatcher (every advertised inline name accepted and bound to the same "
         "Value operations), compact-size prefix ladder vs the serializer's, hash compositions (transforms and opcode forms), and "
         "non-emptiness guards after a failed decode, and no modulus-free negation handed to the modular add helper. The computed values (hashes, codecs, arithmetic) are not decided.",
    technique="table agreement + interval ladders over G-SYM outcomes + call-sequence extraction + guard dominance",
    design="DESIGN.md section 4, C14")

CLAIMS["C11"] = dict(
    text="Non-interference of the mock tables (every read is the membership test of the checked key, inside its guarded region, or a "
         "stderr diagnostic), ordering (the mock branch dominates all real verification of that key in EvalChecksig and the CHECKMULTISIG "
         "loop), sibling agreement of the acceptance predicate map.count(sig) && map.at(sig) == key, and the pair-list parser's storage / "
         "state-flag / refusal discipline. The grammar of pair lists at value level is not decided.",
    technique="read-site classification (slice to guard / diagnostics), CFG dominance, sibling predicate normalisation",
    design="DESIGN.md section 4, C11")

CLAIMS["C12"] = dict(
    text="Counting/pairing analysis between the listing built in main and the position counter: every listed section is counted under "
         "the same guard, the line array is sized after all counting, the taproot commitment is described with exactly as many lines "
         "as Iterate() executes steps, each script switch advances the marker once, the P2SH section is listed under the stepper's "
         "predicate, the counter moves by one per step/rewind, a failed step restores every snapshotted field (so the marker keeps designating the next operation), "
         "and print/echo are indexed and bounded by it. Line text is not decided.",
    technique="structural counting (linear forms in the path length), guard agreement, CFG must-pass",
    design="DESIGN.md section 4, C12")

CLAIMS["C13"] = dict(
    text="Writer/reader agreement of the transaction codec as ordered stream-operation sequences on the basic and BIP144 paths, presence "
         "and predicate of the two rejections, txid/wtxid serialisation flags, exception containment and trailing-byte rejection for "
         "malformed input, amount parsing parameters, and the compact-size ladder with canonical-form bounds. Bit-exact round trip and "
         "field values are not decided. Converting constructors between CTransaction and CMutableTransaction copy every shared data member.",
    technique="reader / writer as item lists over locations per path (G-SYM), rejections from decided conditions, interval ladders, exception escape",
    design="DESIGN.md section 4, C13")

CLAIMS["C05"] = dict(
    text="Sibling cross-check of the step-wise taproot commitment against the batch twin kept from Bitcoin Core and against BIP341 "
         "constants: tagged hashers, leaf stream, node byte-slice (offset as a linear form in the node index), ordering predicate, path "
         "length, internal/output key slices, final CheckTapTweak arguments; the control-size predicate; def-use of the exported leaf "
         "hash into the signing data; CheckTapTweak hands parity to libsecp. SHA-256 / secp256k1 are trusted. The stepper's prologue is read per state of Iterate() on G-SYM outcomes (Done exports the derived leaf hash, Failed neither advances nor releases the environment), and a session that was handed the commitment check is not done before its first step.",
    technique="both implementations mapped to Herbrand terms over the same atoms (G-SYM), byte ranges normalised to slice(container, offset, length), sibling agreement",
    design="DESIGN.md section 4, C05")

CLAIMS["C06"] = dict(
    text="Writer<->verifier agreement for the tap tool: tag literals, leaf stream and leaf version, branch ordering (symbolic evaluation "
         "of the compare-and-swap idiom: smaller child first), tweak stream, control-block layout and parity polarity (finite-domain "
         "tabulation of the two key prefixes), Prove's sibling selection and bottom-up order, and data-flow non-interference of the "
         "printed address with the spend selection. Tree shape for every n, secp256k1/bech32m and the reported sighash value are not decided.",
    technique="writer/reader term agreement (G-SYM; the branch ordering is decided from the comparison each path took), finite-domain tabulation, data-dependence closure",
    design="DESIGN.md section 4, C06")

CLAIMS["C03"] = dict(
    text="Index-role discipline (vin/amounts by the input index, vout by the output index, the latter taken from the same input's "
         "prevout.n), selection rules (txid equality dominates, --select honoured, refusals), fail-closed hash commitments before the "
         "script to execute is chosen (P2SH-wrapped, v0 script/key hash with the right hash function, v1 commitment construction), "
         "script-switch epilogue, P2SH continuation only for BASE with the flag, and agreement with VerifyWitnessProgram on annex rule, "
         "validation weight and sizes. That a finished session equals consensus validity is not decided. Decided on the accepting paths of set-up enumerated by G-SYM (and of the batch twin): a path that returns true has decided the commitment comparison true; a pending commitment keeps the session open; the P2SH mark is cleared on every path that enters the redeem script.",
    technique="subscript role typing, def-use and dominance on the CFG, sibling fact agreement with the batch twin",
    design="DESIGN.md section 4, C03")

CLAIMS["C02"] = dict(
    text="Digest layout conformance and bookkeeping: for every hash type 0..255, script version, annex and cache state the typed byte "
         "stream hashed by SignatureHashSchnorr / SignatureHash / the legacy serializer / the five sub-hash helpers, computed as a term per path, "
         "equals the stream BIP341/342, BIP143 and the legacy SIGHASH rules prescribe (field names from spec/digests.json; single vs double SHA256 included); "
         "Schnorr size / 0x00 hash-type rules and normalise-in-place are read off the call events per path; the session stepper "
         "keeps opcode_pos like EvalScript; every asserted execdata init flag is set before a taproot/tapscript session; the two ECDSA "
         "sites and the tapscript signature budget agree with the reference. Signature validity itself (ECDSA/Schnorr, DER) is not decided. Key-encoding predicates (STRICTENC, WITNESS_PUBKEYTYPE) are tabulated over sizes x first byte against the rule.",
    technique="path-sensitive value numbering (Herbrand terms of the hashed byte stream per path, G-SYM) compared with the BIP terms for every hash type 0..255, must-assign dominance, call-event ordering",
    design="DESIGN.md section 4, C02")

NOT_YET = "check not built yet in this round (see DESIGN.md section 7 build order)"

NA = {
    "C18": "a numeric bijection over byte strings is a property of runtime values; the only structural clauses in reach "
           "(minimality test guarded by fRequireMinimal, 4- vs 5-byte operand sizes) are decided under C09/C10; no "
           "sound static argument in reach decides the codec itself",
}

ALL = ["C%02d" % i for i in range(1, 19)]


def main():
    checks = []
    for pid in ALL:
        if pid in CLAIMS:
            c = CLAIMS[pid]
            checks.append({
                "property_id": pid,
                "quick_cmd": "./check %s --tier quick" % pid,
                "thorough_cmd": "./check %s --tier thorough" % pid,
                "evidence_file": "/verif/evidence/%s.json" % pid,
                "replay_cmd_template": "./check %s --explain {path}" % pid,
                "engine": "btcdeb-static",
                "level_claimed": {"category": "other", "text": c["text"], "design_ref": c["design"]},
                "level_note": NOTE_COMMON,
                "technique": c["technique"],
            })
    na = []
    for pid in ALL:
        if pid in CLAIMS:
            continue
        na.append({"property_id": pid, "reason": NA.get(pid, NOT_YET)})
    m = {
        "version": 1,
        "setup_cmd": "./tools/setup.sh",
        "hooks": {
            "guard": "BTCDEB_VERIF",
            "enable": "none needed: the analysis reads /repo's sources as they are (clang -fsyntax-only semantics); "
                      "no hook is compiled into btcdeb",
            "baseline_off_cmd": "cd /repo && make -j16 >/dev/null && ./test-btcdeb",
            "source_commits": [],
            "add_only": True,
        },
        "engines": [{
            "name": "btcdeb-static",
            "path": "/verif/check",
            "serves_properties": sorted(CLAIMS),
            "kind_free_text": "custom static analysis: clang-14 LibTooling extractor (resolved AST + clang::CFG per function) "
                              "and Python rule engines (call graph, write-sets, exception escape, dominance, table agreement, path-sensitive value numbering over Herbrand terms)",
        }],
        "checks": checks,
        "not_applicable": na,
        "notes": "Every check exits 0 (held / only known findings), 1 (+VIOLATION line) or 2 (analysis broken: anchor gone, "
                 "unit unparsable, rule under its instance floor). known_findings.json lists recorded genuine defects.",
    }
    with open(os.path.join(VERIF, "MANIFEST.json"), "w") as fh:
        json.dump(m, fh, indent=1)
    print("MANIFEST.json: %d checks, %d not_applicable" % (len(checks), len(na)))


if __name__ == "__main__":
    main()
