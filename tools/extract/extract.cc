// btcdeb fact extractor: clang-14 LibTooling.
//
// For one translation unit, writes a JSON fact base with
//   * every function/method/lambda that has a body and is defined in a
//     non-system file: a compact, *resolved* AST of the body (callees,
//     members, enumerators and variables are identified by declaration, never
//     by spelling; macros are seen after expansion; template bodies are seen in
//     their instantiations) and the clang::CFG of the body (all
//     sub-expressions are CFG elements), so that dominance / path queries can
//     be answered by the rule engines;
//   * enums with values, records with fields and bases, namespace-scope and
//     static-member variables with their initialisers and constant values.
//
// Usage: extract <out.json> <repo-root> <source> -- <compile flags...>
//
// Nothing is written anywhere except <out.json>. The tool never runs any code
// of the analysed program.

#include "clang/AST/ASTConsumer.h"
#include "clang/AST/ASTContext.h"
#include "clang/AST/Mangle.h"
#include "clang/AST/RecursiveASTVisitor.h"
#include "clang/AST/ParentMapContext.h"
#include "clang/Analysis/CFG.h"
#include "clang/Frontend/CompilerInstance.h"
#include "clang/Frontend/FrontendAction.h"
#include "clang/Lex/Lexer.h"
#include "clang/Tooling/CompilationDatabase.h"
#include "clang/Tooling/Tooling.h"
#include "llvm/Support/JSON.h"
#include "llvm/Support/raw_ostream.h"

#include <map>
#include <set>
#include <string>
#include <vector>

using namespace clang;

static std::string g_out;
static std::string g_root;
static std::string g_unit;

namespace {

class Emitter {
public:
  Emitter(ASTContext &C, llvm::json::OStream &J)
      : Ctx(C), SM(C.getSourceManager()), J(J), NameGen(C),
        PP(C.getPrintingPolicy()) {
    PP.SuppressTagKeyword = true;
    PP.Bool = true;
    PP.SuppressUnwrittenScope = true;
  }

  ASTContext &Ctx;
  SourceManager &SM;
  llvm::json::OStream &J;
  ASTNameGenerator NameGen;
  PrintingPolicy PP;

  // per function state
  std::map<const Stmt *, int> Ids;
  int NextId = 0;
  std::string CurFile;
  std::vector<const LambdaExpr *> PendingLambdas;
  std::set<const FunctionDecl *> Done;

  // ----------------------------------------------------------------- helpers
  std::string relFile(SourceLocation L) {
    L = SM.getExpansionLoc(L);
    if (L.isInvalid()) return "";
    std::string F = SM.getFilename(L).str();
    // normalise ./ and root prefix
    llvm::SmallString<256> P(F);
    llvm::sys::path::remove_dots(P, true);
    F = P.str().str();
    if (F.rfind(g_root, 0) == 0) {
      F = F.substr(g_root.size());
      while (!F.empty() && F[0] == '/') F = F.substr(1);
    }
    return F;
  }
  unsigned line(SourceLocation L) {
    L = SM.getExpansionLoc(L);
    return L.isValid() ? SM.getSpellingLineNumber(L) : 0;
  }
  unsigned col(SourceLocation L) {
    L = SM.getExpansionLoc(L);
    return L.isValid() ? SM.getSpellingColumnNumber(L) : 0;
  }
  bool inRepo(SourceLocation L) {
    L = SM.getExpansionLoc(L);
    if (L.isInvalid()) return false;
    if (SM.isInSystemHeader(L)) return false;
    std::string F = relFile(L);
    if (F.empty() || F[0] == '/') return false; // outside root
    return true;
  }
  std::string tyStr(QualType T) {
    if (T.isNull()) return "";
    return T.getAsString(PP);
  }
  // canonical, reference/pointer-stripped, unqualified record or builtin name
  std::string canonCore(QualType T) {
    if (T.isNull()) return "";
    T = T.getNonReferenceType();
    while (T->isPointerType()) T = T->getPointeeType();
    T = T.getCanonicalType().getUnqualifiedType();
    if (const auto *RD = T->getAsCXXRecordDecl()) {
      return RD->getQualifiedNameAsString();
    }
    if (const auto *RT = T->getAs<RecordType>())
      return RT->getDecl()->getQualifiedNameAsString();
    if (const auto *ET = T->getAs<EnumType>())
      return ET->getDecl()->getQualifiedNameAsString();
    return T.getAsString(PP);
  }
  std::string funcId(const FunctionDecl *FD) {
    if (!FD) return "";
    FD = FD->getCanonicalDecl();
    std::string N;
    if (isa<CXXDeductionGuideDecl>(FD)) return "";
    if (FD->isDependentContext()) {
      N = "dep:" + FD->getQualifiedNameAsString();
    } else {
      N = NameGen.getName(FD);
      if (N.empty()) N = FD->getQualifiedNameAsString();
    }
    // internal linkage (static functions, anonymous namespaces): per unit
    if (!FD->isExternallyVisible() || FD->isMain()) N += "@" + g_unit;
    return N;
  }
  std::string funcName(const FunctionDecl *FD) {
    if (!FD) return "";
    return FD->getQualifiedNameAsString();
  }
  std::string varId(const ValueDecl *VD) {
    // parameters and locals: name#line:col of the declaration
    // globals / static members: qualified name
    if (const auto *V = dyn_cast<VarDecl>(VD)) {
      if (V->isLocalVarDeclOrParm()) {
        return V->getNameAsString() + "#" + std::to_string(line(V->getLocation())) +
               ":" + std::to_string(col(V->getLocation()));
      }
      return V->getQualifiedNameAsString();
    }
    if (isa<BindingDecl>(VD))
      return VD->getNameAsString() + "#" + std::to_string(line(VD->getLocation())) + ":" +
             std::to_string(col(VD->getLocation()));
    return VD->getQualifiedNameAsString();
  }
  std::string macroName(SourceLocation L) {
    if (!L.isMacroID()) return "";
    // outermost macro whose expansion contains L
    SourceLocation Cur = L;
    std::string Name;
    while (Cur.isMacroID()) {
      if (SM.isMacroArgExpansion(Cur)) {
        Cur = SM.getImmediateExpansionRange(Cur).getBegin();
        continue;
      }
      Name = Lexer::getImmediateMacroName(Cur, SM, Ctx.getLangOpts()).str();
      Cur = SM.getImmediateExpansionRange(Cur).getBegin();
    }
    return Name;
  }

  void paramKinds(const FunctionDecl *FD, std::string &Out) {
    for (const ParmVarDecl *P : FD->parameters()) {
      QualType T = P->getType();
      char K = 'v';
      if (T->isReferenceType()) {
        QualType PT = T->getPointeeType();
        K = PT.isConstQualified() ? 'c' : (T->isRValueReferenceType() ? 'm' : 'r');
      } else if (T->isPointerType()) {
        QualType PT = T->getPointeeType();
        K = PT.isConstQualified() ? 'q' : 'p';
      }
      Out.push_back(K);
    }
    if (FD->isVariadic()) Out.push_back('.');
  }

  // ----------------------------------------------------------------- ids
  const Stmt *strip(const Stmt *S) {
    // wrappers that carry no meaning of their own for the rules
    while (S) {
      if (const auto *E = dyn_cast<ImplicitCastExpr>(S)) { S = E->getSubExpr(); continue; }
      if (const auto *E = dyn_cast<ExprWithCleanups>(S)) { S = E->getSubExpr(); continue; }
      if (const auto *E = dyn_cast<MaterializeTemporaryExpr>(S)) { S = E->getSubExpr(); continue; }
      if (const auto *E = dyn_cast<CXXBindTemporaryExpr>(S)) { S = E->getSubExpr(); continue; }
      if (const auto *E = dyn_cast<ParenExpr>(S)) { S = E->getSubExpr(); continue; }
      if (const auto *E = dyn_cast<ConstantExpr>(S)) { S = E->getSubExpr(); continue; }
      if (const auto *E = dyn_cast<FullExpr>(S)) { S = E->getSubExpr(); continue; }
      if (const auto *E = dyn_cast<SubstNonTypeTemplateParmExpr>(S)) { S = E->getReplacement(); continue; }
      break;
    }
    return S;
  }
  int idOf(const Stmt *S) {
    const Stmt *T = strip(S);
    if (!T) return -1;
    auto It = Ids.find(T);
    if (It != Ids.end()) return It->second;
    int Id = NextId++;
    Ids[T] = Id;
    return Id;
  }

  // ----------------------------------------------------------------- AST
  void attrLoc(const Stmt *S) {
    SourceLocation L = S->getBeginLoc();
    if (const auto *E = dyn_cast<Expr>(S)) {
      SourceLocation EL = E->getExprLoc();
      if (EL.isValid()) L = EL;
    }
    J.attribute("l", (int64_t)line(L));
    J.attribute("c", (int64_t)col(L));
    std::string F = relFile(L);
    if (F != CurFile) J.attribute("f", F);
    if (S->getBeginLoc().isMacroID()) {
      std::string M = macroName(S->getBeginLoc());
      if (!M.empty()) J.attribute("mac", M);
    }
  }

  void constVal(const Expr *E) {
    if (!E || E->isValueDependent() || E->isTypeDependent()) return;
    QualType T = E->getType();
    if (T.isNull()) return;
    if (!(T->isIntegralOrEnumerationType())) return;
    if (isa<IntegerLiteral>(E) || isa<CharacterLiteral>(E) || isa<CXXBoolLiteralExpr>(E)) return;
    Expr::EvalResult R;
    if (E->EvaluateAsInt(R, Ctx, Expr::SE_NoSideEffects)) {
      llvm::APSInt V = R.Val.getInt();
      if (V.isSigned() || V.getActiveBits() <= 63)
        J.attribute("cv", V.isSigned() ? V.getSExtValue() : (int64_t)V.getZExtValue());
      else
        J.attribute("cvs", llvm::toString(V, 10));
    }
  }

  void child(const char *Key, const Stmt *S) {
    if (!S) return;
    J.attributeBegin(Key);
    node(S);
    J.attributeEnd();
  }
  void children(const char *Key, llvm::ArrayRef<const Stmt *> L) {
    J.attributeBegin(Key);
    J.arrayBegin();
    for (const Stmt *S : L)
      if (S) node(S);
      else J.value(nullptr);
    J.arrayEnd();
    J.attributeEnd();
  }

  void calleeAttrs(const FunctionDecl *FD) {
    if (!FD) return;
    J.attribute("callee", funcName(FD));
    J.attribute("cid", funcId(FD));
    std::string PK;
    paramKinds(FD, PK);
    J.attribute("pk", PK);
    if (const auto *MD = dyn_cast<CXXMethodDecl>(FD)) {
      if (MD->isInstance()) {
        J.attribute("mconst", MD->isConst());
        if (MD->isVirtual()) J.attribute("virt", true);
      } else {
        J.attribute("static", true);
      }
      J.attribute("mrec", MD->getParent()->getQualifiedNameAsString());
    }
    if (FD->isNoReturn()) J.attribute("noret", true);
    if (!inRepo(FD->getLocation())) J.attribute("ext", true);
  }

  void node(const Stmt *S0) {
    const Stmt *S = strip(S0);
    if (!S) { J.value(nullptr); return; }
    J.objectBegin();
    J.attribute("id", (int64_t)idOf(S));
    // note LValueToRValue on the way (= the value of the operand is read)
    for (const Stmt *W = S0; W && W != S;) {
      if (const auto *IC = dyn_cast<ImplicitCastExpr>(W)) {
        if (IC->getCastKind() == CK_LValueToRValue) { J.attribute("rv", true); }
        if (IC->getCastKind() == CK_UserDefinedConversion) { J.attribute("udc", true); }
        W = IC->getSubExpr();
      } else if (const auto *E = dyn_cast<ExprWithCleanups>(W)) W = E->getSubExpr();
      else if (const auto *E = dyn_cast<MaterializeTemporaryExpr>(W)) W = E->getSubExpr();
      else if (const auto *E = dyn_cast<CXXBindTemporaryExpr>(W)) W = E->getSubExpr();
      else if (const auto *E = dyn_cast<ParenExpr>(W)) W = E->getSubExpr();
      else if (const auto *E = dyn_cast<FullExpr>(W)) W = E->getSubExpr();
      else if (const auto *E = dyn_cast<SubstNonTypeTemplateParmExpr>(W)) W = E->getReplacement();
      else break;
    }
    attrLoc(S);
    if (const auto *E = dyn_cast<Expr>(S)) constVal(E);

    if (const auto *E = dyn_cast<DeclRefExpr>(S)) {
      const ValueDecl *D = E->getDecl();
      J.attribute("k", "ref");
      J.attribute("n", D->getNameAsString());
      if (const auto *EC = dyn_cast<EnumConstantDecl>(D)) {
        J.attribute("dk", "enumc");
        J.attribute("qn", EC->getQualifiedNameAsString());
        J.attribute("ev", EC->getInitVal().getExtValue());
        if (const auto *ED = dyn_cast<EnumDecl>(EC->getDeclContext()))
          J.attribute("enum", ED->getQualifiedNameAsString());
      } else if (const auto *FD = dyn_cast<FunctionDecl>(D)) {
        J.attribute("dk", "func");
        J.attribute("qn", funcName(FD));
        J.attribute("fid", funcId(FD));
      } else if (const auto *VD = dyn_cast<VarDecl>(D)) {
        J.attribute("dk", isa<ParmVarDecl>(VD) ? "parm" : (VD->isLocalVarDecl() ? "local" : "global"));
        J.attribute("d", varId(VD));
        J.attribute("ty", tyStr(VD->getType()));
        J.attribute("ct", canonCore(VD->getType()));
        if (VD->getType()->isReferenceType()) J.attribute("isref", true);
      } else {
        J.attribute("dk", "other");
        J.attribute("d", varId(D));
        J.attribute("ty", tyStr(D->getType()));
      }
    } else if (const auto *E = dyn_cast<MemberExpr>(S)) {
      J.attribute("k", "mem");
      const ValueDecl *D = E->getMemberDecl();
      J.attribute("n", D->getNameAsString());
      if (const auto *FD = dyn_cast<FieldDecl>(D)) {
        J.attribute("rec", FD->getParent()->getQualifiedNameAsString());
        J.attribute("ty", tyStr(FD->getType()));
        J.attribute("ct", canonCore(FD->getType()));
        if (FD->getType()->isReferenceType()) J.attribute("isref", true);
      } else if (const auto *MD = dyn_cast<CXXMethodDecl>(D)) {
        J.attribute("method", true);
        J.attribute("rec", MD->getParent()->getQualifiedNameAsString());
      } else if (const auto *VD = dyn_cast<VarDecl>(D)) {
        J.attribute("rec", "static");
        J.attribute("d", varId(VD));
        J.attribute("ty", tyStr(VD->getType()));
      }
      if (E->isArrow()) J.attribute("arrow", true);
      child("base", E->getBase());
    } else if (const auto *E = dyn_cast<CXXOperatorCallExpr>(S)) {
      J.attribute("k", "opcall");
      J.attribute("op", getOperatorSpelling(E->getOperator()));
      calleeAttrs(E->getDirectCallee());
      J.attribute("ty", tyStr(E->getType()));
      J.attribute("ct", canonCore(E->getType()));
      std::vector<const Stmt *> A;
      for (const Expr *X : E->arguments()) A.push_back(X);
      children("args", A);
    } else if (const auto *E = dyn_cast<CXXMemberCallExpr>(S)) {
      J.attribute("k", "mcall");
      calleeAttrs(E->getDirectCallee());
      if (const auto *MD = E->getMethodDecl()) {
        J.attribute("n", MD->getNameAsString());
      }
      J.attribute("ty", tyStr(E->getType()));
      J.attribute("ct", canonCore(E->getType()));
      if (const Expr *O = E->getImplicitObjectArgument()) {
        J.attribute("objct", canonCore(O->getType()));
        if (O->getType()->isPointerType()) J.attribute("objptr", true);
        child("obj", O);
      }
      if (!E->getDirectCallee()) child("fn", E->getCallee());
      std::vector<const Stmt *> A;
      for (const Expr *X : E->arguments()) A.push_back(X);
      children("args", A);
    } else if (const auto *E = dyn_cast<CallExpr>(S)) {
      J.attribute("k", "call");
      const FunctionDecl *FD = E->getDirectCallee();
      calleeAttrs(FD);
      if (FD) J.attribute("n", FD->getNameAsString());
      J.attribute("ty", tyStr(E->getType()));
      J.attribute("ct", canonCore(E->getType()));
      if (!FD) child("fn", E->getCallee());
      std::vector<const Stmt *> A;
      for (const Expr *X : E->arguments()) A.push_back(X);
      children("args", A);
    } else if (const auto *E = dyn_cast<CXXConstructExpr>(S)) {
      J.attribute("k", "ctor");
      calleeAttrs(E->getConstructor());
      J.attribute("ty", tyStr(E->getType()));
      J.attribute("ct", canonCore(E->getType()));
      if (E->getConstructor()->isCopyOrMoveConstructor()) J.attribute("copy", true);
      if (isa<CXXTemporaryObjectExpr>(E)) J.attribute("temp", true);
      std::vector<const Stmt *> A;
      for (const Expr *X : E->arguments()) A.push_back(X);
      children("args", A);
    } else if (const auto *E = dyn_cast<CompoundAssignOperator>(S)) {
      J.attribute("k", "cassign");
      J.attribute("op", E->getOpcodeStr());
      child("lhs", E->getLHS());
      child("rhs", E->getRHS());
    } else if (const auto *E = dyn_cast<BinaryOperator>(S)) {
      J.attribute("k", E->isAssignmentOp() ? "assign" : "bin");
      J.attribute("op", E->getOpcodeStr());
      J.attribute("ty", tyStr(E->getType()));
      child("lhs", E->getLHS());
      child("rhs", E->getRHS());
    } else if (const auto *E = dyn_cast<UnaryOperator>(S)) {
      J.attribute("k", "un");
      J.attribute("op", UnaryOperator::getOpcodeStr(E->getOpcode()));
      if (E->isPostfix()) J.attribute("post", true);
      if (E->getOpcode() == UO_AddrOf && E->getType()->isPointerType() &&
          E->getType()->getPointeeType().isConstQualified())
        J.attribute("toconst", true);
      child("e", E->getSubExpr());
    } else if (const auto *E = dyn_cast<IntegerLiteral>(S)) {
      J.attribute("k", "int");
      llvm::APInt V = E->getValue();
      if (V.getActiveBits() <= 63) J.attribute("v", (int64_t)V.getZExtValue());
      else J.attribute("vs", llvm::toString(V, 10, false));
    } else if (const auto *E = dyn_cast<CharacterLiteral>(S)) {
      J.attribute("k", "char");
      J.attribute("v", (int64_t)E->getValue());
    } else if (const auto *E = dyn_cast<CXXBoolLiteralExpr>(S)) {
      J.attribute("k", "bool");
      J.attribute("v", E->getValue());
    } else if (const auto *E = dyn_cast<StringLiteral>(S)) {
      J.attribute("k", "str");
      if (E->getCharByteWidth() == 1) J.attribute("s", E->getString());
      else J.attribute("s", "<wide>");
    } else if (isa<CXXNullPtrLiteralExpr>(S) || isa<GNUNullExpr>(S)) {
      J.attribute("k", "null");
    } else if (isa<FloatingLiteral>(S)) {
      J.attribute("k", "float");
    } else if (isa<CXXThisExpr>(S)) {
      J.attribute("k", "this");
      J.attribute("ct", canonCore(cast<Expr>(S)->getType()));
    } else if (const auto *E = dyn_cast<ExplicitCastExpr>(S)) {
      J.attribute("k", "cast");
      J.attribute("ty", tyStr(E->getTypeAsWritten()));
      J.attribute("ct", canonCore(E->getType()));
      J.attribute("ck", E->getCastKindName());
      child("e", E->getSubExpr());
    } else if (const auto *E = dyn_cast<ConditionalOperator>(S)) {
      J.attribute("k", "cond");
      child("cond", E->getCond());
      child("then", E->getTrueExpr());
      child("else", E->getFalseExpr());
    } else if (const auto *E = dyn_cast<ArraySubscriptExpr>(S)) {
      J.attribute("k", "index");
      J.attribute("bty", tyStr(E->getBase()->IgnoreImpCasts()->getType()));
      child("base", E->getBase());
      child("idx", E->getIdx());
    } else if (const auto *E = dyn_cast<CXXNewExpr>(S)) {
      J.attribute("k", "new");
      J.attribute("array", E->isArray());
      J.attribute("ty", tyStr(E->getAllocatedType()));
      if (E->isArray() && E->getArraySize()) child("size", *E->getArraySize());
      if (E->getInitializer()) child("init", E->getInitializer());
    } else if (const auto *E = dyn_cast<CXXDeleteExpr>(S)) {
      J.attribute("k", "delete");
      J.attribute("array", E->isArrayForm());
      child("e", E->getArgument());
    } else if (const auto *E = dyn_cast<CXXThrowExpr>(S)) {
      J.attribute("k", "throw");
      if (E->getSubExpr()) {
        J.attribute("ty", canonCore(E->getSubExpr()->getType()));
        child("e", E->getSubExpr());
      } else {
        J.attribute("rethrow", true);
      }
    } else if (const auto *E = dyn_cast<CXXDefaultArgExpr>(S)) {
      J.attribute("k", "defarg");
      child("e", E->getExpr());
    } else if (const auto *E = dyn_cast<CXXDefaultInitExpr>(S)) {
      J.attribute("k", "definit");
      child("e", E->getExpr());
    } else if (const auto *E = dyn_cast<InitListExpr>(S)) {
      J.attribute("k", "initlist");
      J.attribute("ty", tyStr(E->getType()));
      const InitListExpr *Sem = E->isSemanticForm() ? E : (E->getSemanticForm() ? E->getSemanticForm() : E);
      std::vector<const Stmt *> A;
      for (const Expr *X : Sem->inits()) A.push_back(X);
      children("ch", A);
    } else if (const auto *E = dyn_cast<CXXStdInitializerListExpr>(S)) {
      J.attribute("k", "stdinit");
      child("e", E->getSubExpr());
    } else if (const auto *E = dyn_cast<UnaryExprOrTypeTraitExpr>(S)) {
      J.attribute("k", "sizeof");
      if (!E->isArgumentType()) child("e", E->getArgumentExpr());
      else J.attribute("ty", tyStr(E->getArgumentType()));
    } else if (const auto *E = dyn_cast<LambdaExpr>(S)) {
      J.attribute("k", "lambda");
      if (E->getCallOperator()) J.attribute("fid", funcId(E->getCallOperator()));
      PendingLambdas.push_back(E);
      std::vector<const Stmt *> A;
      for (const Expr *X : E->capture_inits()) A.push_back(X);
      children("caps", A);
    } else if (const auto *E = dyn_cast<CXXScalarValueInitExpr>(S)) {
      J.attribute("k", "zeroinit");
      J.attribute("ty", tyStr(E->getType()));
    } else if (const auto *E = dyn_cast<ImplicitValueInitExpr>(S)) {
      J.attribute("k", "zeroinit");
      J.attribute("ty", tyStr(E->getType()));
    } else if (const auto *E = dyn_cast<OpaqueValueExpr>(S)) {
      J.attribute("k", "opaque");
      if (E->getSourceExpr()) child("e", E->getSourceExpr());
    } else if (const auto *E = dyn_cast<BinaryConditionalOperator>(S)) {
      J.attribute("k", "bincond");
      child("cond", E->getCommon());
      child("else", E->getFalseExpr());
    } else if (const auto *E = dyn_cast<StmtExpr>(S)) {
      J.attribute("k", "stmtexpr");
      child("body", E->getSubStmt());
    } else if (const auto *E = dyn_cast<PredefinedExpr>(S)) {
      J.attribute("k", "predef");
      (void)E;
    } else if (const auto *E = dyn_cast<ArrayInitLoopExpr>(S)) {
      J.attribute("k", "arrayinitloop");
      child("e", E->getCommonExpr());
    }
    // ---------------- statements
    else if (const auto *C = dyn_cast<CompoundStmt>(S)) {
      J.attribute("k", "block");
      std::vector<const Stmt *> A(C->body_begin(), C->body_end());
      children("ch", A);
    } else if (const auto *D = dyn_cast<DeclStmt>(S)) {
      J.attribute("k", "decl");
      J.attributeBegin("decls");
      J.arrayBegin();
      for (const Decl *X : D->decls()) {
        if (const auto *VD = dyn_cast<VarDecl>(X)) {
          J.objectBegin();
          J.attribute("n", VD->getNameAsString());
          J.attribute("d", varId(VD));
          J.attribute("ty", tyStr(VD->getType()));
          J.attribute("ct", canonCore(VD->getType()));
          if (VD->getType()->isReferenceType()) {
            J.attribute("isref", true);
            if (VD->getType()->getPointeeType().isConstQualified()) J.attribute("constref", true);
          }
          if (VD->isStaticLocal()) J.attribute("static", true);
          if (VD->getType().isConstQualified()) J.attribute("const", true);
          if (const auto *AT = Ctx.getAsConstantArrayType(VD->getType()))
            J.attribute("arraysize", (int64_t)AT->getSize().getZExtValue());
          if (VD->hasInit()) child("init", VD->getInit());
          J.objectEnd();
        }
      }
      J.arrayEnd();
      J.attributeEnd();
    } else if (const auto *I = dyn_cast<IfStmt>(S)) {
      J.attribute("k", "if");
      if (I->getInit()) child("init", I->getInit());
      if (I->getConditionVariableDeclStmt()) child("condvar", I->getConditionVariableDeclStmt());
      child("cond", I->getCond());
      child("then", I->getThen());
      if (I->getElse()) child("else", I->getElse());
    } else if (const auto *W = dyn_cast<SwitchStmt>(S)) {
      J.attribute("k", "switch");
      if (W->getInit()) child("init", W->getInit());
      child("cond", W->getCond());
      child("body", W->getBody());
    } else if (const auto *C = dyn_cast<CaseStmt>(S)) {
      J.attribute("k", "case");
      if (const Expr *L = C->getLHS()) {
        Expr::EvalResult R;
        if (!L->isValueDependent() && L->EvaluateAsInt(R, Ctx)) J.attribute("v", R.Val.getInt().getExtValue());
        const Expr *LL = L->IgnoreParenImpCasts();
        if (const auto *CE = dyn_cast<ConstantExpr>(LL)) LL = CE->getSubExpr()->IgnoreParenImpCasts();
        if (const auto *DR = dyn_cast<DeclRefExpr>(LL))
          if (const auto *EC = dyn_cast<EnumConstantDecl>(DR->getDecl())) J.attribute("vn", EC->getQualifiedNameAsString());
      }
      if (const Expr *R = C->getRHS()) {
        Expr::EvalResult RR;
        if (!R->isValueDependent() && R->EvaluateAsInt(RR, Ctx)) J.attribute("hi", RR.Val.getInt().getExtValue());
      }
      child("sub", C->getSubStmt());
    } else if (const auto *D = dyn_cast<DefaultStmt>(S)) {
      J.attribute("k", "default");
      child("sub", D->getSubStmt());
    } else if (const auto *F = dyn_cast<ForStmt>(S)) {
      J.attribute("k", "for");
      if (F->getInit()) child("init", F->getInit());
      if (F->getCond()) child("cond", F->getCond());
      if (F->getInc()) child("inc", F->getInc());
      child("body", F->getBody());
    } else if (const auto *F = dyn_cast<CXXForRangeStmt>(S)) {
      J.attribute("k", "forrange");
      if (F->getLoopVariable()) {
        J.attribute("var", F->getLoopVariable()->getNameAsString());
        J.attribute("vard", varId(F->getLoopVariable()));
        J.attribute("varty", tyStr(F->getLoopVariable()->getType()));
      }
      child("range", F->getRangeInit());
      child("body", F->getBody());
    } else if (const auto *W = dyn_cast<WhileStmt>(S)) {
      J.attribute("k", "while");
      child("cond", W->getCond());
      child("body", W->getBody());
    } else if (const auto *W = dyn_cast<DoStmt>(S)) {
      J.attribute("k", "do");
      child("body", W->getBody());
      child("cond", W->getCond());
    } else if (const auto *R = dyn_cast<ReturnStmt>(S)) {
      J.attribute("k", "return");
      if (R->getRetValue()) child("e", R->getRetValue());
    } else if (isa<BreakStmt>(S)) {
      J.attribute("k", "break");
    } else if (isa<ContinueStmt>(S)) {
      J.attribute("k", "continue");
    } else if (isa<NullStmt>(S)) {
      J.attribute("k", "null_stmt");
    } else if (const auto *T = dyn_cast<CXXTryStmt>(S)) {
      J.attribute("k", "try");
      child("body", T->getTryBlock());
      J.attributeBegin("handlers");
      J.arrayBegin();
      for (unsigned i = 0; i < T->getNumHandlers(); ++i) {
        const CXXCatchStmt *H = T->getHandler(i);
        J.objectBegin();
        J.attribute("id", (int64_t)idOf(H));
        J.attribute("l", (int64_t)line(H->getBeginLoc()));
        if (H->getExceptionDecl()) {
          J.attribute("ty", canonCore(H->getCaughtType()));
          J.attribute("var", H->getExceptionDecl()->getNameAsString());
        } else {
          J.attribute("ty", "...");
        }
        child("body", H->getHandlerBlock());
        J.objectEnd();
      }
      J.arrayEnd();
      J.attributeEnd();
    } else if (const auto *G = dyn_cast<GotoStmt>(S)) {
      J.attribute("k", "goto");
      J.attribute("label", G->getLabel()->getNameAsString());
    } else if (const auto *L = dyn_cast<LabelStmt>(S)) {
      J.attribute("k", "label");
      J.attribute("label", L->getDecl()->getNameAsString());
      child("sub", L->getSubStmt());
    } else if (const auto *A = dyn_cast<AttributedStmt>(S)) {
      J.attribute("k", "attributed");
      child("sub", A->getSubStmt());
    } else {
      // generic fallback: class name + children
      J.attribute("k", std::string("?") + S->getStmtClassName());
      if (const auto *E = dyn_cast<Expr>(S)) J.attribute("ty", tyStr(E->getType()));
      std::vector<const Stmt *> Kids;
      for (const Stmt *X : S->children()) Kids.push_back(X);
      children("ch", Kids);
    }
    J.objectEnd();
  }

  // ----------------------------------------------------------------- CFG
  void emitCFG(const FunctionDecl *FD) {
    CFG::BuildOptions BO;
    BO.setAllAlwaysAdd();
    BO.AddInitializers = true;
    BO.AddImplicitDtors = false;
    BO.AddEHEdges = false;
    BO.AddTemporaryDtors = false;
    BO.PruneTriviallyFalseEdges = false;
    std::unique_ptr<CFG> G = CFG::buildCFG(FD, FD->getBody(), &Ctx, BO);
    if (!G) { J.attribute("cfg", nullptr); return; }
    J.attributeBegin("cfg");
    J.objectBegin();
    J.attribute("entry", (int64_t)G->getEntry().getBlockID());
    J.attribute("exit", (int64_t)G->getExit().getBlockID());
    J.attributeBegin("blocks");
    J.arrayBegin();
    for (const CFGBlock *B : *G) {
      J.objectBegin();
      J.attribute("b", (int64_t)B->getBlockID());
      J.attributeBegin("el");
      J.arrayBegin();
      for (const CFGElement &El : *B) {
        if (auto CS = El.getAs<CFGStmt>()) {
          J.value((int64_t)idOf(CS->getStmt()));
        } else if (auto CI = El.getAs<CFGInitializer>()) {
          if (CI->getInitializer()->getInit()) J.value((int64_t)idOf(CI->getInitializer()->getInit()));
        }
      }
      J.arrayEnd();
      J.attributeEnd();
      J.attributeBegin("succ");
      J.arrayBegin();
      for (auto SI = B->succ_begin(); SI != B->succ_end(); ++SI) {
        const CFGBlock *SB = SI->getReachableBlock();
        if (!SB) SB = SI->getPossiblyUnreachableBlock();
        if (SB) J.value((int64_t)SB->getBlockID());
        else J.value(nullptr);
      }
      J.arrayEnd();
      J.attributeEnd();
      if (B->hasNoReturnElement()) J.attribute("noret", true);
      if (const Stmt *T = B->getTerminatorStmt()) {
        J.attribute("term", (int64_t)idOf(T));
        J.attribute("tk", T->getStmtClassName());
        if (const Stmt *TC = B->getTerminatorCondition(false)) J.attribute("tcond", (int64_t)idOf(TC));
      }
      if (const Stmt *L = B->getLabel()) J.attribute("label", (int64_t)idOf(L));
      J.objectEnd();
    }
    J.arrayEnd();
    J.attributeEnd();
    J.objectEnd();
    J.attributeEnd();
  }

  // ----------------------------------------------------------------- functions
  void emitFunction(const FunctionDecl *FD) {
    if (!FD->doesThisDeclarationHaveABody()) return;
    if (FD->isDependentContext()) return;
    if (!inRepo(FD->getLocation())) return;
    if (Done.count(FD)) return;
    Done.insert(FD);
    Ids.clear();
    NextId = 0;
    CurFile = relFile(FD->getLocation());
    J.objectBegin();
    J.attribute("id", funcId(FD));
    J.attribute("name", funcName(FD));
    J.attribute("short", FD->getNameAsString());
    J.attribute("file", CurFile);
    J.attribute("line", (int64_t)line(FD->getLocation()));
    J.attribute("endline", (int64_t)line(FD->getEndLoc()));
    J.attribute("ret", tyStr(FD->getReturnType()));
    if (!FD->isExternallyVisible()) J.attribute("internal", true);
    if (FD->isTemplateInstantiation()) J.attribute("inst", true);
    if (FD->isMain()) J.attribute("main", true);
    if (const auto *MD = dyn_cast<CXXMethodDecl>(FD)) {
      J.attribute("rec", MD->getParent()->getQualifiedNameAsString());
      J.attribute("const", MD->isConst());
      if (MD->isStatic()) J.attribute("static", true);
      if (MD->isVirtual()) {
        J.attribute("virtual", true);
        J.attributeBegin("overrides");
        J.arrayBegin();
        for (const CXXMethodDecl *O : MD->overridden_methods()) J.value(funcId(O));
        J.arrayEnd();
        J.attributeEnd();
      }
      if (MD->getParent()->isLambda()) J.attribute("lambda", true);
    }
    std::string PK;
    paramKinds(FD, PK);
    J.attribute("pk", PK);
    J.attributeBegin("params");
    J.arrayBegin();
    for (const ParmVarDecl *P : FD->parameters()) {
      J.objectBegin();
      J.attribute("n", P->getNameAsString());
      J.attribute("d", varId(P));
      J.attribute("ty", tyStr(P->getType()));
      J.attribute("ct", canonCore(P->getType()));
      if (P->hasDefaultArg() && !P->hasUnparsedDefaultArg() && !P->hasUninstantiatedDefaultArg())
        child("default", P->getDefaultArg());
      J.objectEnd();
    }
    J.arrayEnd();
    J.attributeEnd();
    if (const auto *CD = dyn_cast<CXXConstructorDecl>(FD)) {
      J.attributeBegin("inits");
      J.arrayBegin();
      for (const CXXCtorInitializer *I : CD->inits()) {
        J.objectBegin();
        if (I->isAnyMemberInitializer()) J.attribute("field", I->getAnyMember()->getNameAsString());
        else if (I->isBaseInitializer()) J.attribute("base", canonCore(QualType(I->getBaseClass(), 0)));
        else if (I->isDelegatingInitializer()) J.attribute("delegating", true);
        J.attribute("written", I->isWritten());
        J.attribute("l", (int64_t)line(I->getSourceLocation()));
        if (I->getInit()) child("e", I->getInit());
        J.objectEnd();
      }
      J.arrayEnd();
      J.attributeEnd();
    }
    J.attributeBegin("body");
    node(FD->getBody());
    J.attributeEnd();
    emitCFG(FD);
    J.objectEnd();
    // lambdas found in the body
    std::vector<const LambdaExpr *> L;
    L.swap(PendingLambdas);
    for (const LambdaExpr *E : L)
      if (E->getCallOperator()) emitFunction(E->getCallOperator());
  }
};

class Collector : public RecursiveASTVisitor<Collector> {
public:
  std::vector<const FunctionDecl *> Funcs;
  std::vector<const EnumDecl *> Enums;
  std::vector<const CXXRecordDecl *> Records;
  std::vector<const RecordDecl *> CRecords;
  std::vector<const VarDecl *> Vars;
  bool shouldVisitTemplateInstantiations() const { return true; }
  bool shouldVisitImplicitCode() const { return false; }
  bool VisitFunctionDecl(FunctionDecl *FD) {
    if (FD->doesThisDeclarationHaveABody() && !FD->isDependentContext()) Funcs.push_back(FD);
    return true;
  }
  bool VisitEnumDecl(EnumDecl *ED) {
    if (ED->isCompleteDefinition()) Enums.push_back(ED);
    return true;
  }
  bool VisitRecordDecl(RecordDecl *RD) {
    if (RD->isCompleteDefinition() && !RD->isDependentContext()) {
      if (auto *C = dyn_cast<CXXRecordDecl>(RD)) Records.push_back(C);
      else CRecords.push_back(RD);
    }
    return true;
  }
  bool VisitVarDecl(VarDecl *VD) {
    if (!VD->isLocalVarDeclOrParm() && !VD->getDeclContext()->isDependentContext() &&
        VD->isThisDeclarationADefinition())
      Vars.push_back(VD);
    else if (VD->isStaticDataMember() && !VD->getDeclContext()->isDependentContext() && VD->hasInit())
      Vars.push_back(VD);
    return true;
  }
};

class Consumer : public ASTConsumer {
public:
  void HandleTranslationUnit(ASTContext &Ctx) override {
    if (Ctx.getDiagnostics().hasErrorOccurred()) {
      llvm::errs() << "extract: parse errors in " << g_unit << "\n";
      // still emit, but mark
    }
    std::error_code EC;
    llvm::raw_fd_ostream OS(g_out, EC);
    if (EC) { llvm::errs() << "cannot write " << g_out << "\n"; exit(3); }
    llvm::json::OStream J(OS);
    Emitter E(Ctx, J);
    Collector C;
    C.TraverseDecl(Ctx.getTranslationUnitDecl());

    J.objectBegin();
    J.attribute("unit", g_unit);
    J.attribute("errors", Ctx.getDiagnostics().hasErrorOccurred());
    J.attributeBegin("funcs");
    J.arrayBegin();
    for (const FunctionDecl *FD : C.Funcs) E.emitFunction(FD);
    J.arrayEnd();
    J.attributeEnd();

    J.attributeBegin("enums");
    J.arrayBegin();
    for (const EnumDecl *ED : C.Enums) {
      if (!E.inRepo(ED->getLocation())) continue;
      J.objectBegin();
      J.attribute("name", ED->getQualifiedNameAsString());
      J.attribute("file", E.relFile(ED->getLocation()));
      J.attribute("line", (int64_t)E.line(ED->getLocation()));
      J.attribute("scoped", ED->isScoped());
      J.attributeBegin("consts");
      J.arrayBegin();
      for (const EnumConstantDecl *EC : ED->enumerators()) {
        J.objectBegin();
        J.attribute("n", EC->getNameAsString());
        J.attribute("v", EC->getInitVal().getExtValue());
        J.attribute("l", (int64_t)E.line(EC->getLocation()));
        J.objectEnd();
      }
      J.arrayEnd();
      J.attributeEnd();
      J.objectEnd();
    }
    J.arrayEnd();
    J.attributeEnd();

    J.attributeBegin("records");
    J.arrayBegin();
    auto emitFields = [&](const RecordDecl *RD) {
      J.attributeBegin("fields");
      J.arrayBegin();
      for (const FieldDecl *F : RD->fields()) {
        J.objectBegin();
        J.attribute("n", F->getNameAsString());
        J.attribute("ty", E.tyStr(F->getType()));
        J.attribute("ct", E.canonCore(F->getType()));
        J.attribute("l", (int64_t)E.line(F->getLocation()));
        if (F->getType()->isReferenceType()) J.attribute("isref", true);
        if (F->getType().isConstQualified()) J.attribute("const", true);
        if (const auto *AT = Ctx.getAsConstantArrayType(F->getType()))
          J.attribute("arraysize", (int64_t)AT->getSize().getZExtValue());
        J.objectEnd();
      }
      J.arrayEnd();
      J.attributeEnd();
    };
    for (const CXXRecordDecl *RD : C.Records) {
      if (!E.inRepo(RD->getLocation())) continue;
      if (RD->isLambda()) continue;
      J.objectBegin();
      J.attribute("name", RD->getQualifiedNameAsString());
      J.attribute("file", E.relFile(RD->getLocation()));
      J.attribute("line", (int64_t)E.line(RD->getLocation()));
      J.attributeBegin("bases");
      J.arrayBegin();
      for (const CXXBaseSpecifier &B : RD->bases()) J.value(E.canonCore(B.getType()));
      J.arrayEnd();
      J.attributeEnd();
      emitFields(RD);
      J.attributeBegin("methods");
      J.arrayBegin();
      for (const CXXMethodDecl *M : RD->methods()) {
        if (M->isImplicit()) continue;
        J.objectBegin();
        J.attribute("n", M->getNameAsString());
        J.attribute("id", E.funcId(M));
        J.attribute("const", M->isConst());
        J.attribute("virtual", M->isVirtual());
        J.attribute("pure", M->isPure());
        J.objectEnd();
      }
      J.arrayEnd();
      J.attributeEnd();
      J.objectEnd();
    }
    for (const RecordDecl *RD : C.CRecords) {
      if (!E.inRepo(RD->getLocation())) continue;
      J.objectBegin();
      J.attribute("name", RD->getQualifiedNameAsString());
      J.attribute("file", E.relFile(RD->getLocation()));
      J.attribute("line", (int64_t)E.line(RD->getLocation()));
      emitFields(RD);
      J.objectEnd();
    }
    J.arrayEnd();
    J.attributeEnd();

    J.attributeBegin("vars");
    J.arrayBegin();
    std::set<const VarDecl *> SeenV;
    for (const VarDecl *VD : C.Vars) {
      if (!E.inRepo(VD->getLocation())) continue;
      if (!SeenV.insert(VD).second) continue;
      E.Ids.clear();
      E.NextId = 0;
      E.CurFile = E.relFile(VD->getLocation());
      J.objectBegin();
      J.attribute("name", VD->getQualifiedNameAsString());
      J.attribute("file", E.CurFile);
      J.attribute("line", (int64_t)E.line(VD->getLocation()));
      J.attribute("ty", E.tyStr(VD->getType()));
      J.attribute("ct", E.canonCore(VD->getType()));
      J.attribute("const", VD->getType().isConstQualified());
      if (!VD->isExternallyVisible()) J.attribute("internal", true);
      if (const auto *AT = Ctx.getAsConstantArrayType(VD->getType()))
        J.attribute("arraysize", (int64_t)AT->getSize().getZExtValue());
      if (VD->hasInit()) {
        const Expr *I = VD->getInit();
        if (!I->isValueDependent() && VD->getType()->isIntegralOrEnumerationType()) {
          Expr::EvalResult R;
          if (I->EvaluateAsInt(R, Ctx)) {
            llvm::APSInt V = R.Val.getInt();
            if (V.isSigned() || V.getActiveBits() <= 63)
              J.attribute("value", V.isSigned() ? V.getSExtValue() : (int64_t)V.getZExtValue());
            else
              J.attribute("values", llvm::toString(V, 10));
          }
        }
        J.attributeBegin("init");
        E.node(I);
        J.attributeEnd();
      }
      J.objectEnd();
    }
    J.arrayEnd();
    J.attributeEnd();
    J.objectEnd();
    OS << "\n";
  }
};

class Action : public ASTFrontendAction {
public:
  std::unique_ptr<ASTConsumer> CreateASTConsumer(CompilerInstance &, llvm::StringRef) override {
    return std::make_unique<Consumer>();
  }
};

} // namespace

int main(int argc, const char **argv) {
  if (argc < 5) {
    llvm::errs() << "usage: extract <out.json> <repo-root> <source> -- <flags>\n";
    return 2;
  }
  g_out = argv[1];
  g_root = argv[2];
  while (g_root.size() > 1 && g_root.back() == '/') g_root.pop_back();
  std::string Src = argv[3];
  std::vector<std::string> Flags;
  int i = 4;
  if (std::string(argv[i]) == "--") ++i;
  for (; i < argc; ++i) Flags.push_back(argv[i]);
  {
    std::string S = Src;
    if (S.rfind(g_root, 0) == 0) { S = S.substr(g_root.size()); while (!S.empty() && S[0] == '/') S = S.substr(1); }
    g_unit = S;
  }
  clang::tooling::FixedCompilationDatabase DB(g_root, Flags);
  clang::tooling::ClangTool Tool(DB, {Src});
  int R = Tool.run(clang::tooling::newFrontendActionFactory<Action>().get());
  return R;
}
