#!/usr/bin/env python3
"""Apply each behaviour-preserving refactor under /verif/benign to /repo, run every claimed check, undo.
Every check must still exit 0: a VIOLATION or an analysis-broken exit on a benign refactor is a false alarm of the checker."""
import json, os, subprocess, sys
VERIF = "/verif"
claimed = [c["property_id"] for c in json.load(open(os.path.join(VERIF, "MANIFEST.json")))["checks"]]
if os.environ.get("VERIF_ONLY_CHECKS"):
    claimed = [c for c in claimed if c in os.environ["VERIF_ONLY_CHECKS"].split(",")]      # re-run after a change to one rule file
REPO = "/repo"
if len(sys.argv) > 2 and sys.argv[1] == "--repo":
    REPO = sys.argv[2]
    del sys.argv[1:3]
    if not os.path.exists(os.path.join(REPO, ".git")):
        subprocess.check_call(["git", "clone", "-q", "/repo", REPO])
        os.makedirs(os.path.join(REPO, "config"), exist_ok=True)
        subprocess.check_call(["cp", "/repo/config/bitcoin-config.h", os.path.join(REPO, "config/")])
    subprocess.check_call("git -C %s fetch -q /repo HEAD && git -C %s reset -q --hard FETCH_HEAD" % (REPO, REPO), shell=True)
os.environ["VERIF_REPO"] = REPO
assert subprocess.run("git -C %s status --porcelain --untracked-files=no" % REPO, shell=True, capture_output=True, text=True).stdout.strip() == "", "/repo not clean"
bad = 0
only = sys.argv[1:]
for f in sorted(os.listdir(os.path.join(VERIF, "benign"))):
    if not f.endswith(".diff") or (only and not any(o in f for o in only)):
        continue
    r = subprocess.run(["git", "-C", REPO, "apply", os.path.join(VERIF, "benign", f)], capture_output=True, text=True)
    if r.returncode:
        print(f, "DOES NOT APPLY", r.stderr[-200:]); bad += 1
        subprocess.run("git -C %s reset -q --hard HEAD" % REPO, shell=True)
        continue
    try:
        res = {}
        anchors = []
        from concurrent.futures import ThreadPoolExecutor
        first = subprocess.run(["./check", claimed[0]], cwd=VERIF, capture_output=True, text=True)      # fills the fact cache
        with ThreadPoolExecutor(max_workers=8) as ex:
            rest = list(ex.map(lambda q: subprocess.run(["./check", q], cwd=VERIF, capture_output=True, text=True), claimed[1:]))
        for pid, c in zip(claimed, [first] + rest):
            if c.returncode == 2 and "anchor name(s)" in c.stdout:
                anchors.append(pid)      # a rename of an identifier listed in an anchor table: exit 2 by contract, never an alarm
            elif c.returncode != 0:
                res[pid] = (c.returncode, [l for l in c.stdout.splitlines() if l.startswith("  R") or "BROKEN" in l][:2])
        if res:
            print(f, "FALSE ALARM %s" % res, flush=True)
        else:
            print(f, "ok (%d checks silent%s)" % (len(claimed) - len(anchors), "; %s report a renamed anchor with exit 2, no alarm" % anchors if anchors else ""), flush=True)
        bad += bool(res)
    finally:
        subprocess.run("git -C %s reset -q --hard HEAD" % REPO, shell=True)
sys.exit(1 if bad else 0)
