#!/bin/sh
cd /verif
for p in C01 C02 C03 C04 C05 C06 C07 C08 C09 C10 C11 C12 C13 C14 C15 C16 C17; do
  ./check $p --tier thorough > /tmp/thorough.$p 2>&1; echo "$p rc=$? $(tail -1 /tmp/thorough.$p)"
done
