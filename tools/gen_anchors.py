#!/usr/bin/env python3
"""Regenerate spec/anchors.json: the rename-invariant fingerprints (type + use contexts) of every local / parameter that a rule
anchors by name (common.require_names), taken from the CURRENT /repo tree. Run after a confirmed change of /repo."""
import json, os, subprocess, sys, tempfile
VERIF = "/verif"
tmp = tempfile.mktemp(prefix="anchors.", dir="/tmp")
env = dict(os.environ, VERIF_RECORD_ANCHORS=tmp)
for c in json.load(open(os.path.join(VERIF, "MANIFEST.json")))["checks"]:
    subprocess.run(["./check", c["property_id"]], cwd=VERIF, env=env, capture_output=True)
tab = {}
for l in open(tmp):
    for k, v in json.loads(l).items():
        tab.setdefault(k, {}).update(v)
os.unlink(tmp)
json.dump(tab, open(os.path.join(VERIF, "spec", "anchors.json"), "w"), indent=1, sort_keys=True)
print("%d functions, %d anchors" % (len(tab), sum(len(v) for v in tab.values())))
