#!/bin/sh
# usage: mkworktree.sh <dir>   - scratch git worktree of /repo HEAD with /repo's build outputs copied in (so `make` is incremental)
set -e
D="$1"
git -C /repo worktree add --detach "$D" HEAD >/dev/null 2>&1
rsync -a --exclude .git /repo/ "$D/"
cd "$D" && git status --short | head -5
