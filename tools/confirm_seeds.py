#!/usr/bin/env python3
"""Confirm sub-agent seeds independently: for each /tmp/seed-C*/SEED/<X>/ apply in a fresh scratch worktree of /repo
(at BASE), rebuild, run the repo's tests and the demonstration; copy confirmed ones to /verif/seeded/<id>/.
usage: confirm_seeds.py [--base COMMIT] [ids...]"""
import glob, json, os, shutil, subprocess, sys, time
from concurrent.futures import ThreadPoolExecutor

BASE = "8ba0a93"
GLOB = "/tmp/seed-C*/SEED/*/"
RENAME = {}
args = sys.argv[1:]
while args and args[0].startswith("--"):
    if args[0] == "--base":
        BASE = args[1]; args = args[2:]
    elif args[0] == "--round2":
        GLOB = "/tmp/seed2-C*/SEED/*/"; RENAME = {"A": "C", "B": "D"}; args = args[1:]
    elif args[0] == "--round6":
        GLOB = "/tmp/seed6-C*/SEED/*/"; RENAME = {"A": "K", "B": "L"}; args = args[1:]
    elif args[0] == "--round5":
        GLOB = "/tmp/seed5-C*/SEED/*/"; RENAME = {"A": "I", "B": "J"}; args = args[1:]
    elif args[0] == "--round4":
        GLOB = "/tmp/seed4-C*/SEED/*/"; RENAME = {"A": "G", "B": "H"}; args = args[1:]
    elif args[0] == "--round3":
        GLOB = "/tmp/seed3-C*/SEED/*/"; RENAME = {"A": "E", "B": "F"}; args = args[1:]
    else:
        break

def sh(cmd, cwd=None, timeout=900):
    r = subprocess.run(cmd, shell=True, cwd=cwd, capture_output=True, text=True, timeout=timeout)
    return r.returncode, (r.stdout + r.stderr)[-3000:]

def demo_cmd(d, tree):
    for name in ("demo.sh", "demo.py"):
        p = os.path.join(d, name)
        if os.path.exists(p):
            return ("bash %s %s" if name.endswith(".sh") else "python3 %s %s") % (p, tree)
    return None

def confirm(seed_dir):
    pid = seed_dir.split("/")[2].replace("seed6-", "").replace("seed5-", "").replace("seed4-", "").replace("seed3-", "").replace("seed2-", "").replace("seed-", "")
    x = os.path.basename(seed_dir)
    x = RENAME.get(x, x)
    sid = "%s-%s" % (pid, x)
    if args and sid not in args and pid not in args:
        return None
    out = "/verif/seeded/%s" % sid
    if os.path.exists(os.path.join(out, "meta.json")):
        return sid, "already"
    wt = "/tmp/confirm-%s" % sid
    sh("git -C /repo worktree remove --force %s" % wt)
    shutil.rmtree(wt, ignore_errors=True)
    log = {"id": sid, "property": pid, "base_commit": BASE}
    try:
        rc, o = sh("git -C /repo worktree add --detach %s %s" % (wt, BASE))
        if rc: return sid, "worktree failed: " + o
        sh("rsync -a --exclude .git /repo/ %s/" % wt)
        sh("git checkout -- .", cwd=wt)
        # copy seed aside (demo may have helper files)
        os.makedirs(out, exist_ok=True)
        for f in os.listdir(seed_dir):
            if os.path.isfile(os.path.join(seed_dir, f)):
                shutil.copy(os.path.join(seed_dir, f), out)
        dc = demo_cmd(out, wt)
        if not dc: return sid, "no demo"
        rc, o = sh("touch *.cpp */*.cpp && make -j6 2>&1 | tail -3", cwd=wt)
        rc0, o0 = sh(dc, cwd=wt)
        log["demo_clean_rc"] = rc0
        rc, o = sh("git apply %s/patch.diff" % out, cwd=wt)
        if rc: return sid, "patch does not apply: " + o
        rc, o = sh("touch *.cpp */*.cpp && make -j6 2>&1 | tail -5", cwd=wt)
        log["build_rc"] = rc
        rct, ot = sh("./test-btcdeb | tail -2", cwd=wt)
        log["tests"] = ot.strip().splitlines()[-1] if ot.strip() else ""
        log["tests_pass"] = "All tests passed" in ot
        rc1, o1 = sh(dc, cwd=wt)
        log["demo_changed_rc"] = rc1
        log["demo_changed_tail"] = o1[-600:]
        ok = rc0 == 0 and rc1 != 0 and log["tests_pass"]
        log["confirmed"] = ok
        meta = {"id": sid, "breaks_property": pid, "confirmed": ok, "what_it_needs": open(os.path.join(out, "meta.txt")).read() if os.path.exists(os.path.join(out, "meta.txt")) else "",
                "ran": {"base_commit": BASE, "build": "touch sources; make -j6", "tests": log["tests"], "demo": os.path.basename(dc.split()[1]),
                        "demo_rc_unchanged_tree": rc0, "demo_rc_changed_tree": rc1, "demo_output_tail_changed": o1[-600:]},
                "detected_by": None}
        with open(os.path.join(out, "meta.json"), "w") as fh:
            json.dump(meta, fh, indent=1)
        if not ok:
            return sid, "NOT CONFIRMED %s" % log
        return sid, "confirmed"
    finally:
        sh("git -C /repo worktree remove --force %s" % wt)
        shutil.rmtree(wt, ignore_errors=True)

seeds = sorted(glob.glob(GLOB))
seeds = [s.rstrip("/") for s in seeds if os.path.exists(os.path.join(s, "patch.diff"))]
with ThreadPoolExecutor(max_workers=3) as ex:
    for r in ex.map(confirm, seeds):
        if r: print(r, flush=True)
