#!/usr/bin/env python3
"""Apply each confirmed seed under /verif/seeded to /repo, run the checks, record which check reports it, undo.
usage: run_seeds.py [seed ids...]   (never leaves /repo modified)"""
import json, os, subprocess, sys
VERIF = "/verif"
ids = sys.argv[1:]
REPO = "/repo"
if ids and ids[0] == "--repo":
    # evaluate against a scratch clone of /repo (same HEAD) so that /repo itself stays free
    REPO = ids[1]
    ids = ids[2:]
    if not os.path.exists(os.path.join(REPO, ".git")):
        subprocess.check_call(["git", "clone", "-q", "/repo", REPO])
        os.makedirs(os.path.join(REPO, "config"), exist_ok=True)
        subprocess.check_call(["cp", "/repo/config/bitcoin-config.h", os.path.join(REPO, "config/")])
    subprocess.check_call("git -C %s fetch -q /repo HEAD && git -C %s reset -q --hard FETCH_HEAD" % (REPO, REPO), shell=True)
os.environ["VERIF_REPO"] = REPO
import re
manifest = json.load(open(os.path.join(VERIF, "MANIFEST.json")))
claimed = [c["property_id"] for c in manifest["checks"]]
res = {}
_rp = os.path.join(VERIF, "seeded", "results.json")
if os.path.exists(_rp):
    try:
        res = json.load(open(_rp))
    except Exception:
        res = {}
assert subprocess.run("git -C %s status --porcelain --untracked-files=no" % REPO, shell=True, capture_output=True, text=True).stdout.strip() == "", "/repo not clean"
for sid in sorted(os.listdir(os.path.join(VERIF, "seeded"))):
    d = os.path.join(VERIF, "seeded", sid)
    mp = os.path.join(d, "meta.json")
    if not os.path.exists(mp):
        continue
    if ids and sid not in ids and sid.split("-")[0] not in ids:
        continue
    meta = json.load(open(mp))
    if not meta.get("confirmed"):
        continue
    patch = os.path.join(d, "patch.diff")
    how = "apply"
    if os.path.exists(os.path.join(d, "patch.rebased.diff")):
        patch = os.path.join(d, "patch.rebased.diff")
        how = "apply (rebased onto the fixed tree)"
    r = subprocess.run(["git", "-C", REPO, "apply", patch], capture_output=True, text=True)
    if r.returncode:
        subprocess.run("git -C %s reset -q --hard HEAD" % REPO, shell=True)
        r = subprocess.run(["git", "-C", REPO, "apply", "--3way", patch], capture_output=True, text=True)
        how = "apply --3way"
        st = subprocess.run("git -C %s diff --name-only --diff-filter=U" % REPO, shell=True, capture_output=True, text=True).stdout.strip()
        if st:
            r.returncode = 1
            r.stderr = "conflicts in " + st
    if r.returncode:
        res[sid] = {"applied": False, "why": r.stderr[-300:]}
        subprocess.run("git -C %s reset -q --hard HEAD" % REPO, shell=True)
        print(sid, "PATCH DOES NOT APPLY")
        continue
    try:
        hits = {}
        own = meta["breaks_property"]
        from concurrent.futures import ThreadPoolExecutor
        order = ([own] if own in claimed else []) + [p for p in claimed if p != own]
        first = subprocess.run(["./check", order[0]], cwd=VERIF, capture_output=True, text=True)      # fills the fact cache
        with ThreadPoolExecutor(max_workers=6) as ex:
            rest = list(ex.map(lambda q: subprocess.run(["./check", q], cwd=VERIF, capture_output=True, text=True), order[1:]))
        for pid, c in zip(order, [first] + rest):
            viol = [l for l in c.stdout.splitlines() if l.startswith("VIOLATION")]
            if c.returncode == 1 and viol:
                lines = [l.strip() for l in c.stdout.splitlines() if re.match(r"\s+R\d", l)]
                hits[pid] = lines[:3]
            elif c.returncode == 2:
                hits[pid + "(broken)"] = [l for l in c.stdout.splitlines() if "ANALYSIS-BROKEN" in l][:1]
        real = {k: v for k, v in hits.items() if not k.endswith("(broken)")}
        if hits and not real and all("extraction failed" in " ".join(v) for v in hits.values()):
            res[sid] = {"applied": False, "why": "the patch no longer compiles on the current tree (needs a patch.rebased.diff)"}
            print(sid, "PATCH DOES NOT COMPILE on the current tree", flush=True)
            continue
        res[sid] = {"applied": True, "how": how, "detected_by": real, "analysis_broken_only": sorted(set(hits) - set(real)) if not real else []}
        print(sid, ("DETECTED by %s" % sorted(real)) if real else ("NO VERDICT (exit 2 only: %s)" % sorted(hits) if hits else "MISSED"), flush=True)
        for k, v in hits.items():
            for l in v[:1]:
                print("     ", k, l[:200])
    finally:
        subprocess.run("git -C %s reset -q --hard HEAD" % REPO, shell=True)
json.dump(res, open(os.path.join(VERIF, "seeded", "results.json"), "w"), indent=1)
