#!/usr/bin/env python3
"""Collect behaviour-preserving refactors delivered by sub-agents (/tmp/seed2-C0N/REFACTOR/k/{patch.diff,note.txt}) into
/verif/benign/aNN-k.diff after confirming, in a scratch clone of /repo, that each applies to the current HEAD, builds and
passes the unedited test suite.  usage: collect_benign.py N [N...]"""
import os, shutil, subprocess, sys
VERIF = "/verif"
CLONE = "/tmp/repo-benign-build"


def sh(cmd, **kw):
    return subprocess.run(cmd, shell=True, capture_output=True, text=True, **kw)


if not os.path.exists(CLONE):
    subprocess.check_call(["rsync", "-a", "--exclude", ".git/worktrees", "/repo/", CLONE + "/"])
sh("git -C %s fetch -q /repo HEAD && git -C %s reset -q --hard FETCH_HEAD" % (CLONE, CLONE))
SUB, PFX = "REFACTOR", "a"
if len(sys.argv) > 2 and sys.argv[1] == "--round3":
    SUB, PFX = "REFACTOR3", "b"
    del sys.argv[1]
if len(sys.argv) > 2 and sys.argv[1] == "--round8":
    SUB, PFX = "REFACTOR8", "g"
    del sys.argv[1]
if len(sys.argv) > 2 and sys.argv[1] == "--round7":
    SUB, PFX = "REFACTOR7", "f"
    del sys.argv[1]
if len(sys.argv) > 2 and sys.argv[1] == "--round6":
    SUB, PFX = "REFACTOR6", "e"
    del sys.argv[1]
if len(sys.argv) > 2 and sys.argv[1] == "--round5":
    SUB, PFX = "REFACTOR5", "d"
    del sys.argv[1]
if len(sys.argv) > 2 and sys.argv[1] == "--round4":
    SUB, PFX = "REFACTOR4", "c"
    del sys.argv[1]
for n in sys.argv[1:]:
    base = "/tmp/seed2-C%02d/%s" % (int(n), SUB)
    for k in sorted(os.listdir(base)):
        p = os.path.join(base, k, "patch.diff")
        if not os.path.exists(p):
            continue
        dst = os.path.join(VERIF, "benign", "%s%02d-%s.diff" % (PFX, int(n), k))
        r = sh("git -C %s apply --3way %s" % (CLONE, p))
        if r.returncode:
            print(n, k, "DOES NOT APPLY", r.stderr[-200:])
            sh("git -C %s reset -q --hard HEAD" % CLONE)
            continue
        sh("cd %s && touch *.cpp */*.cpp" % CLONE)
        b = sh("cd %s && make -j16 2>&1 | tail -5" % CLONE)
        t = sh("cd %s && ./test-btcdeb | grep -E 'passed|failed' | tail -1" % CLONE)
        ok = "All tests passed" in t.stdout
        print(n, k, "build+tests:", t.stdout.strip() or b.stdout[-300:])
        if ok:
            d = sh("git -C %s diff HEAD" % CLONE).stdout
            open(dst, "w").write(d)
            note = os.path.join(base, k, "note.txt")
            if os.path.exists(note):
                shutil.copy(note, dst.replace(".diff", ".note.txt"))
        sh("git -C %s reset -q --hard HEAD" % CLONE)
