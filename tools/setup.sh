#!/bin/sh
# setup_cmd: build the fact extractor from /verif sources (offline, ~25 s). Nothing is written under /repo.
set -e
cd "$(dirname "$0")/.."
mkdir -p build evidence
if [ ! -x build/extract ] || [ tools/extract/extract.cc -nt build/extract ]; then
  clang++ $(llvm-config-14 --cxxflags) -fno-rtti -O1 tools/extract/extract.cc -o build/extract \
     /usr/lib/llvm-14/lib/libclang-cpp.so.14 /usr/lib/llvm-14/lib/libLLVM-14.so
fi
# the analysis needs config/bitcoin-config.h; if the tree was never configured, generate it in a scratch copy
if [ ! -f /repo/config/bitcoin-config.h ] && [ ! -f build/genconfig/bitcoin-config.h ]; then
  S=$(mktemp -d /tmp/verif-setup.XXXXXX)
  rsync -a --exclude .git /repo/ "$S/"
  (cd "$S" && ./configure >/dev/null 2>&1) || true
  mkdir -p build/genconfig
  [ -f "$S/config/bitcoin-config.h" ] && cp "$S/config/bitcoin-config.h" build/genconfig/
  rm -rf "$S"
fi
python3 - <<'PY'
import sys
sys.path.insert(0, '.')
from checker import facts
p, th, fresh = facts.extract_all(use_cache=False)
fb = facts.Facts(p)
print("setup: %d units, %d functions in fact base, tree %s" % (len(fb.raw_units), len(fb.funcs), th))
PY
